# -*- coding: utf-8 -*-
"""C01: case families beyond cube_util.gen_case.

  numarr  numeric-array cubes: an array of numeric sub-variables (one numeric value or None per
          item and respondent) alone (1-D), by a categorical-like variable or an MR (2-D), by two
          categorical variables (3-D, one table per item) and by three grouping axes (cat x MR ...;
          the class of known_findings.d/C01-numarr-four-axes.json).  The response is laid out as
          the library's fixtures are: the response's own dimensions are the grouping variables,
          every numeric measure carries metadata.type.subvariables and its data has the array
          item as LAST axis.  Square by default (as many valid grouping elements as items, often
          no missing grouping element at all) so that a missing / wrong re-ordering of the axes
          still gives a plausible shape.
  nub     the cube without dimensions (a numeric measure over everybody): `_Nub`.
  tdorder ordinary cubes (cube_util.gen_case: 1-D, 2-D, 3-D, CA) in which one or more categorical /
          categorical-date / datetime / text / binned dimensions (or the categories dimension of a
          categorical array) carry an "order" list in their TYPE DEFINITION: the catalogue
          (type.categories / type.elements) is listed in another order than the data runs along the
          axis, may list categories the order list leaves out and the order list may name codes the
          catalogue does not know; enum payloads are shuffled so that the missing element sits
          anywhere.  Grouping variables of numeric arrays get typedef orders too (30%).
  typed   ordinary cubes whose dimensions stress Dimensions.dimension_type: arrays whose
          categories carry ids 1, 0, -1 (no selected flag / selected:false), a selected flag on
          other ids or orders, categoricals that look like selections (LOGICAL or not), "date" on
          some categories only, MR selection dimensions spelled differently.

For every case the respondent-level oracle decides the cell values: the variable KIND in the
survey says what a dimension is (a categorical array is never collapsed), never the payload."""
import copy
import math
from fractions import Fraction

from harness import core, gen
from harness.core import g_bool, g_list, g_nat, g_Z
from harness.props import cube_util as cu

IMPORTS = cu.IMPORTS.replace(
    "Import ListNotations.",
    "From CC Require Import Model.NumArray Model.DimType Model.TypedefOrder.\nImport ListNotations.")

# Model/DimType.v dtype_code
DT_NAMES = ["BINNED_NUMERIC", "CAT", "CAT_DATE", "CA_CAT", "CA_SUBVAR", "DATETIME", "LOGICAL",
            "MR_CAT", "MR_SUBVAR", "NUM_ARRAY", "TEXT"]
DK_NAMES = ["DCat", "DMrSubvar", "DMrCat", "DCaSubvar", "DNumArr"]
ESUB = {"variable": "SVariable", "datetime": "SDatetime", "numeric": "SNumeric", "text": "SText",
        "num_arr": "SNumArr"}
NUMERIC_KEYS = ("mean", "median", "sum", "stddev", "valid_count_unweighted", "valid_count_weighted")


# ------------------------------------------------------------------------------------
# what a response SAYS about its dimensions (input of Model/DimType.v)
# ------------------------------------------------------------------------------------

def response_rdims(resp):
    """(gallina list of rdim, gallina option nat: alias of the numeric-array measure)."""
    res = resp["result"]
    aliases = {}

    def anum(a):
        return aliases.setdefault(a, len(aliases))

    out = []
    for d in res["dimensions"]:
        refs = d.get("references", {})
        t = d["type"]
        if t["class"] == "categorical":
            cats = ["(mkRCat %s %s %s)" % (g_Z(c.get("id")), g_bool(bool(c.get("selected"))),
                                          g_bool("date" in c))
                    for c in t.get("categories", [])]
            ty = "(RCategorical %s)" % g_list(cats)
        else:
            ty = "(REnum %s %s)" % (ESUB[t["subtype"]["class"]],
                                    g_bool(all("value" in e for e in t["elements"])))
        out.append("(mkRDim %s %s %s)" % (g_nat(anum(refs.get("alias"))),
                                          g_bool(bool(refs.get("subreferences"))), ty))
    numarr = "None"
    for key in NUMERIC_KEYS:
        m = res.get("measures", {}).get(key)
        if m and m.get("metadata", {}).get("type", {}).get("subvariables"):
            numarr = "(Some %s)" % g_nat(anum(m["metadata"].get("references", {}).get("alias")))
            break
    return g_list(out), numarr


def types_term(case):
    """dimension types (all dimensions) and the dimension kinds Model/CubeCounts.v gets from them"""
    rd, na = response_rdims(case["response"])
    miss = g_list([g_list([g_bool(m) for m in a["missing"]]) for a in case["_axes"]])
    return "r_dtypes (resolve (all_rdims %s %s)) ++ r_dkinds (dims_of_response %s %s %s)" % (
        na, rd, na, rd, miss)


def dec_types(toks):
    d = core.Dec(toks)
    ts = d.list(lambda: DT_NAMES[d.Z()])
    ks = d.list(lambda: DK_NAMES[d.Z()])
    assert d.done()
    return ts, ks


# ------------------------------------------------------------------------------------
# per-cell statistics of a numeric variable, from a list of respondents
# ------------------------------------------------------------------------------------

def cell_stats(rs, item, weighted):
    """-> dict mean/sum/stddev/median/vcu/vcw of r['num'][item] over respondents rs
    (None = the response marks the cell unavailable).  stddev is a float (math.sqrt), the
    others exact."""
    vals = [((r["w"] if weighted else Fraction(1)), r["num"][item]) for r in rs
            if r["num"].get(item) is not None]
    un = Fraction(len(vals))
    wn = sum((w for w, _ in vals), Fraction(0))
    ws = sum((w * x for w, x in vals), Fraction(0))
    out = {"vcu": un, "vcw": wn, "sum": ws if vals else None,
           "mean": None, "stddev": None, "median": None}
    if wn != 0:
        mean = ws / wn
        out["mean"] = mean
        var = sum((w * (x - mean) ** 2 for w, x in vals), Fraction(0)) / wn
        out["stddev"] = math.sqrt(float(var))
        acc = Fraction(0)
        for w, x in sorted(vals, key=lambda t: t[1]):   # lower weighted median
            acc += w
            if 2 * acc >= wn:
                out["median"] = x
                break
    return out


def cell_members(sv, aliases):
    """shape of the cube over `aliases` and, per flat offset, the respondents that contribute
    to the cell (accumulated respondent by respondent, as gen.tabulate does)."""
    vs = [sv.var(a) for a in aliases]
    shape = tuple(s for v in vs for s in gen.var_shape(v))
    size = 1
    for s in shape:
        size *= s
    strides, acc = [], 1
    for s in reversed(shape):
        strides.insert(0, acc)
        acc *= s
    members = [[] for _ in range(size)]
    import itertools
    for r in sv.resp:
        contribs = [gen.contributions(v, r["ans"][v.alias]) for v in vs]
        for combo in itertools.product(*contribs):
            idx = tuple(itertools.chain.from_iterable(combo))
            members[sum(i * s for i, s in zip(idx, strides))].append(r)
    return shape, members


# ------------------------------------------------------------------------------------
# numeric arrays
# ------------------------------------------------------------------------------------

NA_ALIAS = "na"
STAT_OF = {"mean": "mean", "sum": "sum", "stddev": "stddev", "median": "median"}


def numarr_response(sv, aliases, items, measures, valid_counts, unavailable, with_count):
    shape, members = cell_members(sv, aliases)
    ucounts = [Fraction(len(m)) for m in members]
    wcounts = [sum((r["w"] for r in m), Fraction(0)) for m in members]
    dims = []
    for a in aliases:
        dims.extend(gen.dimension_dicts(sv.var(a)))
    md = {"derived": True,
          "references": {"alias": NA_ALIAS, "name": "NA",
                         "subreferences": [{"alias": it, "name": it.upper()} for it in items]},
          "type": {"class": "numeric", "integer": False,
                   "subvariables": ["%04d" % (k + 1) for k in range(len(items))]}}
    stats = [[cell_stats(m, it, sv.weighted) for it in items] for m in members]   # [offset][item]
    result = {"counts": [gen.fnum(x) for x in ucounts], "dimensions": dims, "measures": {},
              "element": "crunch:cube", "n": len(sv.resp), "missing": 0}
    meas = result["measures"]
    if with_count:
        meas["count"] = {"data": [gen.fnum(x) for x in (wcounts if sv.weighted else ucounts)],
                         "metadata": {"derived": True, "references": {},
                                      "type": {"class": "numeric", "integer": not sv.weighted}},
                         "n_missing": 0}
    unavailable = set(unavailable or ())

    def lay(key):
        flat = [st[key] for per_item in stats for st in per_item]   # item = last, fastest axis
        return flat

    for m in measures:
        data = [None if k in unavailable else x for k, x in enumerate(lay(STAT_OF[m]))]
        meas[m] = {"data": [gen.cell_json(x) for x in data], "metadata": copy.deepcopy(md),
                   "n_missing": 0}
    if valid_counts:
        meas["valid_count_unweighted"] = {"data": [gen.fnum(x) for x in lay("vcu")],
                                          "metadata": copy.deepcopy(md), "n_missing": 0}
        if sv.weighted and valid_counts != "unweighted_only":
            meas["valid_count_weighted"] = {"data": [gen.fnum(x) for x in lay("vcw")],
                                            "metadata": copy.deepcopy(md), "n_missing": 0}
    resp = {"query": {}, "result": result}
    if any(getattr(v, "typedef_order", None) is not None for v in sv.vars):
        cu.apply_typedef_orders(resp, sv)
    return resp


ENUMS = ["datetime", "text", "binned"]


def _grouping_cat(rng, alias, n_valid, small):
    kind = rng.choice(["cat", "cat", "cat", "cat_date", "datetime", "text", "binned"])
    if kind in ENUMS:
        return gen.make_enum(rng, alias, kind, n_valid=n_valid, with_missing=rng.random() < 0.4)
    return gen.make_cat(rng, alias, n_valid=n_valid,
                        n_missing=rng.choice([0, 0, 0, 1, 1, 2] if not small else [0, 0, 1]),
                        date=(kind == "cat_date"), missing_anywhere=True, numeric=None)


def gen_numarr_case(rng, k, shape=None):
    shape = shape or rng.choice(["alone", "cat", "cat", "cat", "cat", "cat", "mr", "mr",
                                 "catcat", "catcat", "four", "ca"])
    n_items = rng.randint(1, 4) if shape == "alone" else rng.randint(2, 3)
    square = rng.random() < 0.75

    def nv():
        return n_items if square else rng.randint(1, 4)

    if shape == "alone":
        vs = []
    elif shape == "cat":
        vs = [_grouping_cat(rng, "v0", nv(), False)]
    elif shape == "mr":
        vs = [gen.make_mr(rng, "v0", n_items=min(3, nv()) if not square else n_items)]
    elif shape == "ca":
        vs = [gen.make_ca(rng, "v0", n_items=n_items if square else rng.randint(1, 3),
                          n_valid=n_items if square else rng.randint(1, 3),
                          n_missing=rng.choice([0, 0, 1]))]
    elif shape == "catcat":
        vs = [_grouping_cat(rng, "v0", nv() if square else rng.randint(1, 3), True),
              _grouping_cat(rng, "v1", nv() if square else rng.randint(1, 3), True)]
    else:
        pat = rng.choice([("cat", "mr"), ("mr", "cat"), ("mr", "mr")])
        vs = [(_grouping_cat(rng, "v%d" % n, 2, True) if p == "cat"
               else gen.make_mr(rng, "v%d" % n, n_items=2)) for n, p in enumerate(pat)]
    items = ["%s%d" % (NA_ALIAS, i) for i in range(n_items)]
    n_resp = rng.choice([0, 1, 4, 9, 16, 25, 30])
    sv = gen.Survey(vs, n_resp, rng, numvars=items)
    aliases = [v.alias for v in vs]
    measures = rng.sample(["mean", "sum", "stddev", "median"], rng.randint(1, 3))
    valid_counts = rng.choice([True, True, True, "unweighted_only"])
    # unavailable cells arise from the survey itself (nobody with a value in the cell)
    unavailable = []
    case = {"k": k, "family": "numarr", "shape_class": "numarr-" + shape,
            "survey": cu.survey_to_json(sv), "aliases": aliases, "items": items, "perm": None,
            "measures": measures, "numvar": None, "valid_counts": valid_counts,
            "unavailable": unavailable, "with_count": rng.random() < 0.5,
            "mask_size": 0, "ca_as_0th": False}
    if vs and rng.random() < 0.3:
        attach_typedef_orders(rng, case, p_var=0.8)
    finish_case(case)
    return case


# ------------------------------------------------------------------------------------
# "order" in the type definition
# ------------------------------------------------------------------------------------

TD_KINDS = ("cat", "cat_date", "ca", "datetime", "text", "binned")


def shuffle_enum_payload(rng, case, vj):
    """put the elements of an enum variable (JSON form) in another PAYLOAD order, so that its
    missing element sits anywhere; the respondents' answers follow"""
    els = vj["elements"]
    n = len(els)
    perm = list(range(n))
    rng.shuffle(perm)                                  # new payload position q holds old perm[q]
    vj["elements"] = [els[p] for p in perm]
    where = {p: q for q, p in enumerate(perm)}
    for r in case["survey"]["resp"]:
        r["ans"][vj["alias"]] = where[r["ans"][vj["alias"]]]


def attach_typedef_orders(rng, case, p_var=0.7):
    """give one or more eligible variables of the case (JSON form) a typedef order; returns the
    aliases.  The caller re-finishes the case."""
    vjs = [vj for vj in case["survey"]["vars"] if vj["kind"] in TD_KINDS]
    if not vjs:
        return []
    chosen = [vj for vj in vjs if rng.random() < p_var] or [rng.choice(vjs)]
    for vj in chosen:
        if vj["kind"] in ("datetime", "text", "binned") and rng.random() < 0.7:
            shuffle_enum_payload(rng, case, vj)
        v = cu.var_from_json(vj)
        vj["typedef_order"] = cu.gen_typedef_order(rng, v)
    return [vj["alias"] for vj in chosen]


def gen_tdorder_case(rng, k, shape_class=None):
    while True:
        case = cu.gen_case(rng, k, shape_class=shape_class or rng.choice(
            ["1d", "1d", "2d", "2d", "2d", "3d", "3d", "ca", "ca3"]))
        if any(vj["kind"] in TD_KINDS for vj in case["survey"]["vars"]):
            break
    case["family"] = "tdorder"
    case["typedef_aliases"] = attach_typedef_orders(rng, case)
    finish_case(case)
    return case


# ------------------------------------------------------------------------------------
# the nub
# ------------------------------------------------------------------------------------

def gen_nub_case(rng, k):
    n_resp = rng.choice([0, 1, 2, 5, 12, 30])
    sv = gen.Survey([], n_resp, rng, numvars=["x"])
    measures = ["count"] if rng.random() < 0.8 else []
    measures += rng.sample(["mean", "mean", "sum", "stddev", "median"], rng.randint(1, 3))
    measures = sorted(set(measures), key=measures.index)
    case = {"k": k, "family": "nub", "shape_class": "nub", "survey": cu.survey_to_json(sv),
            "aliases": [], "perm": None, "measures": measures, "numvar": "x",
            "valid_counts": rng.choice([False, False, True, "unweighted_only"]),
            "unavailable": [0] if rng.random() < 0.15 else [], "mask_size": 0, "ca_as_0th": False}
    finish_case(case)
    return case


# ------------------------------------------------------------------------------------
# dimensions that stress the type detection
# ------------------------------------------------------------------------------------

SEL_IDS = [1, 0, -1]


def _flags(rng, n, ids=None):
    """missing flags with at least one valid element; id -1 is usually the missing one"""
    if ids is not None and -1 in ids and rng.random() < 0.7:
        return [i == -1 for i in ids]
    while True:
        fl = [rng.random() < 0.3 for _ in range(n)]
        if not all(fl):
            return fl


def lookalike_cats(rng, alias, mode):
    """categories of a plain categorical / of an array that look like a selection"""
    if mode in ("ids10m1", "ids10m1_false", "logical", "logical_date"):
        ids = list(SEL_IDS)
    elif mode == "perm_flag":
        ids = rng.choice([[0, 1, -1], [-1, 0, 1], [1, -1, 0], [0, -1, 1], [-1, 1, 0]])
    elif mode == "other_flag":
        ids = rng.choice([[1, 0], [1, 0, -1, 2], [1, 2, -1], [2, 0, -1], [1, 0, -2], [1], [0, 1]])
    else:  # date_partial
        n = rng.randint(2, 4)
        ids = sorted(rng.sample(range(-1, 9), n), reverse=rng.random() < 0.3)
    fl = _flags(rng, len(ids), ids)
    cats = []
    for k, (i, m) in enumerate(zip(ids, fl)):
        c = {"id": i, "missing": m, "name": "%s_c%d" % (alias, k), "numeric_value": None}
        if mode == "ids10m1_false":
            c["selected"] = False
        if mode in ("logical", "logical_date", "perm_flag") and i == 1:
            c["selected"] = True
        if mode == "other_flag" and k == 0:
            c["selected"] = True
        cats.append(c)
    if mode in ("date_partial", "logical_date"):
        where = rng.choice(["some", "some", "missing_only", "all"])
        for k, c in enumerate(cats):
            if (where == "all" or (where == "some" and (k == 0 or rng.random() < 0.4))
                    or (where == "missing_only" and c["missing"])):
                c["date"] = "20%02d-%02d" % (10 + k, 1 + k)
        if not any("date" in c for c in cats):
            cats[-1]["date"] = "2020-01"
    return cats


CAT_MODES = ["ids10m1", "ids10m1_false", "logical", "logical", "logical_date", "perm_flag",
             "other_flag", "date_partial", "date_partial"]
CA_MODES = ["ids10m1", "ids10m1", "ids10m1", "ids10m1_false", "perm_flag", "other_flag",
            "date_partial"]
MR_MODES = ["explicit_false", "renamed", "numeric_none"]


def typed_var(rng, alias, kind):
    """(variable, mode label)"""
    if kind == "cat*":
        mode = rng.choice(CAT_MODES)
        return gen.Var(kind="cat", alias=alias, name=alias.upper(),
                       cats=lookalike_cats(rng, alias, mode)), "cat:" + mode
    if kind == "ca*":
        mode = rng.choice(CA_MODES)
        v = gen.make_ca(rng, alias, n_items=rng.randint(1, 3), n_valid=1, n_missing=0)
        v.cats = lookalike_cats(rng, alias, mode)
        return v, "ca:" + mode
    if kind == "mr*":
        mode = rng.choice(MR_MODES)
        v = gen.make_mr(rng, alias, n_items=rng.randint(1, 3))
        cats = [{"id": 1, "missing": False, "name": "Selected", "numeric_value": 1, "selected": True},
                {"id": 0, "missing": False, "name": "Not Selected", "numeric_value": 0},
                {"id": -1, "missing": True, "name": "No Data", "numeric_value": None}]
        if mode == "explicit_false":
            cats[1]["selected"] = False
            cats[2]["selected"] = False
        elif mode == "renamed":
            for c, nm in zip(cats, ("Yes", "No", "NA")):
                c["name"] = nm
        else:
            for c in cats:
                c["numeric_value"] = None
        v.mr_cats = cats
        return v, "mr:" + mode
    return cu.make_var(rng, alias, kind, small=True), None


TYPED_SHAPES = [["cat*"], ["cat*"], ["ca*"], ["ca*"], ["ca*"], ["mr*"],
                ["cat*", "cat"], ["cat", "cat*"], ["cat*", "mr"], ["mr", "cat*"], ["cat*", "cat*"],
                ["mr*", "cat*"], ["cat*", "mr*"], ["mr*", "mr"],
                ["ca*", "cat"], ["cat", "ca*"], ["ca*", "mr"], ["mr", "ca*"], ["ca*", "cat*"],
                ["cat*", "ca*"], ["ca*", "mr*"],
                ["cat*", "cat", "mr"], ["cat", "cat*", "cat*"], ["mr*", "cat*", "cat"]]


def gen_typed_case(rng, k):
    kinds = rng.choice(TYPED_SHAPES)
    vs, modes = [], []
    for n, kd in enumerate(kinds):
        v, mode = typed_var(rng, "v%d" % n, kd)
        vs.append(v)
        if mode:
            modes.append(mode)
    has_ca = any(v.kind == "ca" for v in vs)
    ca0 = bool(kinds == ["ca*"] and rng.random() < 0.3)
    numeric = rng.random() < 0.25 and not ca0
    sv = gen.Survey(vs, rng.choice([1, 3, 8, 15, 25]), rng, numvars=["x"] if numeric else [])
    aliases = [v.alias for v in vs]
    perm = None
    if has_ca and not ca0 and rng.random() < 0.5:
        blocks = cu.axis_blocks(sv, aliases)
        order = list(range(len(blocks)))
        rng.shuffle(order)
        perm = [x for b in order for x in blocks[b]]
    measures, valid_counts, unavailable = ["count"], False, []
    if numeric:
        measures += rng.sample(["mean", "sum", "stddev", "median"], rng.randint(1, 2))
        valid_counts = rng.choice([False, False, True])
    case = {"k": k, "family": "typed", "shape_class": "typed", "modes": modes,
            "survey": cu.survey_to_json(sv), "aliases": aliases, "perm": perm, "measures": measures,
            "numvar": "x" if numeric else None, "valid_counts": valid_counts,
            "unavailable": unavailable, "mask_size": 0, "ca_as_0th": ca0}
    finish_case(case)
    return case


# ------------------------------------------------------------------------------------
# (re)building the derived parts
# ------------------------------------------------------------------------------------

def finish_case(case):
    if case.get("family") == "numarr":
        sv = cu.survey_from_json(case["survey"])
        case["_sv"] = sv
        case["response"] = numarr_response(sv, case["aliases"], case["items"], case["measures"],
                                           case["valid_counts"], case["unavailable"],
                                           case.get("with_count", False))
        case["_axes"] = ([{"alias": NA_ALIAS, "role": "numarr", "missing": [False] * len(case["items"])}]
                         + cu.natural_axes(sv, case["aliases"]))
        return case
    return cu.finish_case(case)


# ------------------------------------------------------------------------------------
# respondent-level expectations
# ------------------------------------------------------------------------------------

def expected_types(case):
    """cube.dimension_types the KINDS of the survey's variables stand for (apparent dimensions);
    a plain categorical may come out as CAT, CAT_DATE or LOGICAL (the value is not a matter of
    the cell values), so those three are one class here."""
    out = []
    for a in case["_axes"]:
        role = a["role"]
        if role == "mr_sel":
            continue
        if role == "numarr":
            out.append("NUM_ARRAY")
        elif role == "mr_items":
            out.append("MR_SUBVAR")
        elif role == "ca_items":
            out.append("CA_SUBVAR")
        elif role == "ca_cats":
            out.append("CA_CAT")
        else:
            v = case["_sv"].var(a["alias"])
            out.append({"datetime": "DATETIME", "text": "TEXT", "binned": "BINNED_NUMERIC"}.get(
                v.kind, "CAT*"))
    return out


def type_class(name):
    return "CAT*" if name in ("CAT", "CAT_DATE", "LOGICAL") else name


def numarr_class(case):
    ap = [a for a in case["_axes"] if a["role"] not in ("mr_sel", "numarr")]
    tag = {"mr_items": "Mr", "ca_items": "Arr"}
    names = [tag.get(a["role"], "Cat") for a in ap]
    return "NumArr" + "".join("x" + n for n in names)


def numarr_four_axes(case):
    return len(case["_axes"]) >= 4


class NumArrOracle(object):
    """per-cell statistics of item i over the respondents who belong to the grouping elements"""

    def __init__(self, case):
        self.case = case
        self.sv = case["_sv"]
        self.gaxes = [a for a in case["_axes"] if a["role"] != "numarr"]
        self.oracle = cu.Oracle(self.sv, self.gaxes)
        self.ap = self.oracle.apparent
        self.items = case["items"]

    def stat(self, item_idx, elems, key):
        assign = [(ax, "in", e) for ax, e in zip(self.ap, elems)]
        rs = [r for r in self.sv.resp if self.oracle._holds(r, assign)]
        return cell_stats(rs, self.items[item_idx], self.sv.weighted)[key]

    def n_valid(self, ax):
        return len(cu.valid_positions(ax["missing"]))

    def partition(self, k, key):
        """expected value of partition k: vector (alone), items x elements (one grouping
        variable), elements x elements of item k (two grouping variables)"""
        ap = self.ap
        n = len(self.items)
        if len(ap) == 0:
            return [self.stat(i, [], key) for i in range(n)]
        if len(ap) == 1:
            return [[self.stat(i, [j], key) for j in range(self.n_valid(ap[0]))] for i in range(n)]
        return [[self.stat(k, [a, b], key) for b in range(self.n_valid(ap[1]))]
                for a in range(self.n_valid(ap[0]))]

    def cube(self, key):
        """flat valid tensor (item, grouping elements ...) -- MR grouping: selected plane only is
        defined at respondent level, so only for non-MR grouping"""
        import itertools
        ap = self.ap
        ranges = [range(len(self.items))] + [range(self.n_valid(a)) for a in ap]
        return [self.stat(idx[0], list(idx[1:]), key) for idx in itertools.product(*ranges)]


def nub_expected(case):
    """what the nub should report, from the respondents"""
    sv = case["_sv"]
    meas = case["response"]["result"]["measures"]
    vals = [(r["w"], r["num"]["x"]) for r in sv.resp if r["num"]["x"] is not None]
    un = Fraction(len(vals))
    wn = sum((w for w, _ in vals), Fraction(0))
    ws = sum((w * x for w, x in vals), Fraction(0))
    n_all = Fraction(len(sv.resp))
    w_all = sum((r["w"] for r in sv.resp), Fraction(0))
    unav = 0 in set(case["unavailable"])
    exp = {}
    # gen.cube_response: mean = s/n, sum = s, stddev = (|s|+n)/4, median = s/n, unavailable/0 -> NaN
    exp["means"] = "nan" if (wn == 0 or unav) else ws / wn
    exp["sums"] = "nan" if unav else ws
    exp["stddev"] = "nan" if (wn == 0 or unav) else (abs(ws) + wn) / 4
    exp["medians"] = "nan" if (wn == 0 or unav) else ws / wn
    has_vcu = "valid_count_unweighted" in meas
    has_vcw = "valid_count_weighted" in meas
    exp["unweighted_counts"] = un if has_vcu else n_all
    weighted_count = "count" in meas and sv.weighted
    exp["counts"] = wn if has_vcw else un if has_vcu else (w_all if weighted_count else n_all)
    return exp
