# -*- coding: utf-8 -*-
"""C19 - array items may be referenced by alias, sub-variable id or element id alike; datetime
elements by position or value; stale references are ignored, never raise.

Obligations: coq/Props/C19.v (model coq/Model/Shim.v, spec coq/Proofs/ShimSpec.v).

The check has three legs.
 (1) correspondence, absolute step: the model's `translate` / `dt_translate` is compared with
     `Dimension.translate_element_id` on every spelling of every item plus stale and malformed
     identifiers; the model's `shim_xf` (the translated transforms dict, or the exception) is
     compared with the dict the partition's Dimension object USES (Dimension._dimension_transforms_dict,
     wrapped: a missing attribute is reported as no-failing-input-found) - since /repo 51c19c01 the
     caller's dict is not rewritten any more, and it is additionally required to be deep-equal to its
     pristine copy after the implementation ran, also when the translation raises; the model's
     `consume` (payload per element, items an id list mentions) is compared with the implementation's Element.is_hidden / label and with the
     displayed order.
 (2) relational oracle on the implementation alone: the same transforms written with other
     spellings that the theorems of Props/C19.v declare equivalent (decided by running the proved
     decision procedure `wfb` / the model inside Coq) must give identical labels, codes, order and
     values and identical translated dicts - slots: hide, rename, explicit order, fixed top/bottom,
     sort by opposing element / opposing (derived) insertion.
 (3) thorough tier: exhaustive small scope, <= 4 items x every spelling x every slot.

Left-over transforms dicts (added for seeded change C19-5: `shimmed_dimension_transforms_dict` read the
order dict once into a local and rebuilt `shim["order"]` from that stale local in the fixed-list step, so
the already translated `element_ids` were dropped whenever the same order dict also had a non-empty
`fixed` list).  The generator used to put every reference slot into a transforms dict of its own shape
(an order dict held EITHER `element_ids` OR `fixed`); the property quantifies over every slot that takes
a reference, and a dict may carry several at once - what a client that switches between manual order and
sort-by-value leaves behind.  Class added (`gen_leftover_slots`, own random stream `seed + 3`, the
exhaustive scope and the datetime leg): ONE order dict with `element_ids` AND `fixed` top/bottom with
either kind in force (type explicit: `explicit+fixed`, type label: `sort+element_ids`), explicit ids
next to left-over sort keys (`explicit+sort-keys`), optionally with an `elements` dict, `insertions` and
an order on the opposing dimension in the same transforms.  All three legs run on them: model `shim_xf`
vs the dict the dimension uses, model `consume` vs displayed order (by the order type in force), alias
spelling vs re-spelled variants.  Recorded in the distribution as `leftover:*` / `dt-relational:slot=*`.

Alias-less arrays (added for seeded change C19-9: the late translation of an opposing-element reference
in matrix/assembler.py became `translate_element_id(ref) or ref`, so a SUCCESSFUL translation to a falsy id
- the element id 0 - was discarded, the untranslated spelling matched nothing and the sort fell back to
payload order).  The generator gave (almost) every item an alias, so the translated id of an item was a
non-empty string; the property quantifies over all array dimensions, and zz9 sends the subvariables of
scorecard / fused-variables dimensions WITHOUT aliases (tests/fixtures/scorecard.json): the translated id is
then the numeric element id itself, 0 included.  Class added (`gen_aliasless_case` / `aliasless_dims` /
`aliasless_jobs`, own random stream `seed + 23`): arrays with no item alias at all, as rows and as columns of
a slice, as a strand and in the 3-D table, element ids zero-based / one-based / zero-based shuffled / sparse
with 0, sub-variable ids "0001".. / "0000".. / names / absent (CA); every item x every spelling the model
resolves to it (int id, str id, sub-variable id, zero-padded digits, position) x every slot (hide, rename,
explicit, fixed top / bottom, the left-over dicts, sort by the opposing item descending AND ascending - one
of the two differs from payload order), base = the int element id.  New oracle leg of the correspondence
(`opposing_absolute_fail`, on every opposing-element job of every stream): when the model's `opp_index`
resolves the reference to item i, the other dimension must be displayed in an order monotone in the measure
of item i as the sorted partition reports it (ties free) - the stale fallback used to be the only absolute
statement about this slot.  Recorded in the distribution as `aliasless:*`,
`checked:opposing-sorted-by-the-resolved-item` and in `coverage.aliasless_scope`.

Rows sorted by an item of the opposing array, every array kind on the columns (added for seeded change C19-12:
`_BaseOrderHelper.row_display_order` picked the helper that translates an `opposing_insertion` reference to
an array item - `_SortRowsByDerivedColumnHelper`, one of the property's anchors - for MR_SUBVAR columns only
instead of every array type, so that with categorical-array columns every spelling was looked up among the
non-existent subtotals and the sort silently fell back to payload order: all spellings agree, only an absolute
statement notices).  The generator had an array on the COLUMNS only as CAT x MR and asked for
`opposing_insertion` on ~2% of the dimensions, and the absolute leg ran for `opposing_element` alone.  Class
added (`gen_opparray_case` / `opparray_dims` / `opparray_jobs`, own random stream `seed + 29`): slices whose
columns are MR_SUBVAR (CAT x MR), CA_SUBVAR of the transposed array cube (CA_CAT x CA_SUBVAR,
tests/fixtures/ca-cat-x-ca-subvar.json) and CA_SUBVAR of a 3-D cube (CAT x CA_CAT x CA_SUBVAR), element ids
one-based / zero-based / sparse / shuffled, with and without one item flagged `derived` (numeric arrays cannot
be columns: the library always puts that dimension first); every item x sort type {opposing_insertion,
opposing_element} x direction {descending, ascending} x every spelling the model resolves to the item (alias =
base, sub-variable id, element id int / str, position) + one stale reference per sort type.  Oracle: the
relational leg (every spelling = the alias spelling) and `opposing_absolute_fail`, now also for
`opposing_insertion` orders of the rows that reference an item of the array on the columns (the unchanged
library sorts by the item for all three array types; there is no such translation for an array on the rows).
Recorded as `opposing-array-item:*`, `checked:opposing_insertion-sorted-by-the-resolved-array-item` and in
`coverage.opposing_array_item_scope`.
"""
import copy
import json
import random

import numpy as np

from harness import core, gen, impl
from harness.props import c19_util as U

PID = "C19"
IMPORTS = """From Coq Require Import ZArith List Bool String.
From CC Require Import Base.Render Base.Ident Model.Shim Proofs.ShimSpec Proofs.ShimWfb.
Import ListNotations.
Open Scope string_scope."""

STALE_POOL = [999, "999", "zz", "0099", -7, "-7", "m_i9", "x y"]
MALFORMED_POOL = [None, "", "1x", "+1", "--1", "1.0", "None"]

# ------------------------------------------------------------------------------------
# case generation
# ------------------------------------------------------------------------------------

LAYOUTS_ARRAY = ["mr_x_cat", "mr_x_cat", "cat_x_mr", "cat_x_mr", "ca", "ca", "mr", "cat_x_ca",
                 "numarr_x_cat", "numarr"]


def gen_dim_case(rng, k, layout=None, n_items=None, plain=False):
    """A cube with one array dimension (the dimension under test)."""
    layout = layout or rng.choice(LAYOUTS_ARRAY)
    case = {"k": k, "layout": layout}
    if layout.startswith("numarr"):
        n = n_items or rng.randint(1, 4)
        resp = U.numarr_response(rng, n, by_cat=(layout == "numarr_x_cat"),
                                 with_subrefs=True)
        d = U.adim_of_numarr_measure(resp)
        case.update(response=resp, adim=d, cube_dim=0, akey="rows_dimension",
                    okey="columns_dimension" if layout == "numarr_x_cat" else None,
                    values="means", kind="numarr")
        return case
    kind = "ca" if layout in ("ca", "cat_x_ca") else "mr"
    if plain:
        v = plain_array_var(rng, "m", kind, n_items)
    else:
        v = U.make_array_var(rng, "m", kind, n_items)
    cat = gen.make_cat(rng, "c", n_valid=rng.randint(1, 3), n_missing=rng.choice([0, 0, 1]))
    variables, aliases = {"mr_x_cat": ([v, cat], ["m", "c"]), "cat_x_mr": ([cat, v], ["c", "m"]),
                          "ca": ([v], ["m"]), "mr": ([v], ["m"]),
                          "cat_x_ca": ([cat, v], ["c", "m"])}[layout]
    sv = gen.Survey(variables, rng.randint(6, 16), rng)
    resp = gen.cube_response(sv, aliases)
    dims = resp["result"]["dimensions"]
    raw_idx = {"mr_x_cat": 0, "cat_x_mr": 1, "ca": 0, "mr": 0, "cat_x_ca": 1}[layout]
    if not plain:
        U.patch_absent(rng, dims[raw_idx], kind == "mr")
    d = U.adim_of_dimension_dict(dims[raw_idx], kind == "mr")
    # cube.dimensions (apparent: MR_CAT dropped) index and the transforms keys
    cube_dim = {"mr_x_cat": 0, "cat_x_mr": 1, "ca": 0, "mr": 0, "cat_x_ca": 1}[layout]
    akey = "columns_dimension" if layout == "cat_x_mr" else "rows_dimension"
    okey = {"mr_x_cat": "columns_dimension", "cat_x_mr": "rows_dimension",
            "ca": "columns_dimension", "mr": None, "cat_x_ca": "columns_dimension"}[layout]
    case.update(response=resp, adim=d, cube_dim=cube_dim, akey=akey, okey=okey,
                values="counts", kind=kind)
    return case


def plain_array_var(rng, alias, kind, n):
    """Crunch-shaped variable for the exhaustive scope: ids 1..n, "000k", distinct aliases."""
    items = [{"id": k + 1, "subvar_id": "%04d" % (k + 1), "alias": "%s_i%d" % (alias, k),
              "name": "%s item %d" % (alias, k), "missing": False} for k in range(n)]
    if kind == "mr":
        return gen.Var(kind="mr", alias=alias, name=alias.upper(), items=items)
    cat = gen.make_cat(rng, alias, n_valid=2, n_missing=0)
    return gen.Var(kind="ca", alias=alias, name=alias.upper(), items=items, cats=cat.cats)


def battery(d):
    """identifiers whose translation is compared: all spellings of all items + stale + malformed"""
    out = []
    seen = set()

    def add(x):
        key = (type(x).__name__, x)
        if key not in seen and U.in_model_ident(x):
            seen.add(key)
            out.append(x)

    for k in range(len(d["items"])):
        for _r, x in U.spellings_of_item(d, k):
            add(x)
        add(k)
        add(str(k))
        it = d["items"][k]
        if isinstance(it["eid"], int):
            add("%04d" % it["eid"] if it["eid"] >= 0 else str(it["eid"]))
    for x in STALE_POOL + MALFORMED_POOL + [0, "0", -1, "-1", "key", len(d["items"]), str(len(d["items"]))]:
        add(x)
    return out


# ------------------------------------------------------------------------------------
# implementation side
# ------------------------------------------------------------------------------------


def impl_dim(case, tdim=None):
    """Dimension object of the array dimension as a partition builds it (public API:
    Cube.dimensions, Dimension.apply_transforms)."""
    cube = impl.Cube(copy.deepcopy(case["response"]))
    return cube.dimensions[case["cube_dim"]].apply_transforms({} if tdim is None else tdim)


def impl_translate(dim, x):
    r = impl.guarded(lambda: dim.translate_element_id(x))
    if r[0] == "exc":
        return ("exc", r[1])
    v = r[1]
    if isinstance(v, dict):
        return ("ok", ("obj",))
    return ("ok", v)


READS_SLICE = ["row_labels", "column_labels", "row_codes", "column_codes", "row_order",
               "column_order", "counts"]
READS_STRAND = ["row_labels", "row_codes", "row_order", "counts"]


def norm_value(v):
    if isinstance(v, np.ndarray):
        if v.dtype.kind in "fc":
            return ["nan" if x != x else float(x) for x in v.ravel().tolist()] + [list(v.shape)]
        return [core.jsonable(x) for x in v.ravel().tolist()] + [list(v.shape)]
    return core.jsonable(v)


def impl_outputs(case, transforms, extra_value=True):
    """Run the implementation on deep copies; returns (reads, transforms_after)."""
    resp = copy.deepcopy(case["response"])
    tr = copy.deepcopy(transforms)
    out = {}
    r = impl.guarded(lambda: impl.Cube(resp, transforms=tr).partitions)
    if r[0] == "exc":
        return {"partitions": ("exc", r[1], r[2])}, tr
    parts = r[1]
    for pi, part in enumerate(parts[:2]):
        names = READS_STRAND if part.ndim == 1 else READS_SLICE
        names = list(names)
        if extra_value:
            names.append("means" if case["values"] == "means" else
                         ("column_proportions" if part.ndim == 2 else "table_proportions"))
        for nme in names:
            g = impl.get(part, nme)
            out["%d.%s" % (pi, nme)] = ("ok", norm_value(g[1])) if g[0] == "ok" else ("exc", g[1], g[2])
    return out, tr


def impl_used_dict(case, transforms):
    """The translated transforms dict the dimension under test USES (since /repo 51c19c01 the caller's
    dict is no longer rewritten in place; the dimension works on its own copy, observable only through
    the private Dimension._dimension_transforms_dict of the partition's Dimension object).
    -> ("ok", dict) | ("exc", ExceptionTypeName) | ("missing-attr", msg)"""
    resp = copy.deepcopy(case["response"])
    tr = copy.deepcopy(transforms)
    try:
        part = impl.Cube(resp, transforms=tr).partitions[0]
        dims = part._dimensions
    except AttributeError as e:
        return ("missing-attr", str(e))
    except Exception as e:  # noqa
        return ("exc", type(e).__name__)
    dim = dims[0] if (case["akey"] == "rows_dimension" or len(dims) == 1) else dims[1]
    if not hasattr(type(dim), "_dimension_transforms_dict"):
        return ("missing-attr", "Dimension._dimension_transforms_dict")
    r = impl.guarded(lambda: dim._dimension_transforms_dict)
    return ("ok", r[1]) if r[0] == "ok" else ("exc", r[1])


# ------------------------------------------------------------------------------------
# transforms
# ------------------------------------------------------------------------------------

PAYLOADS = [{"hide": True}, {"hide": True}, {"hide": False}, {"name": "Renamed A"},
            {"name": "Zed"}, {"name": ""}, {"fill": "#aabbcc"}, {"hide": True, "name": "Both"}]


def pick_refs(rng, eq, n_items, how_many, p_stale=0.15, p_malformed=0.0, spelled="any"):
    """[(item or None, spelling)]; eq[k] = spellings the model resolves to item k."""
    out = []
    for _ in range(how_many):
        r = rng.random()
        if r < p_malformed:
            out.append((None, rng.choice(MALFORMED_POOL)))
        elif r < p_malformed + p_stale or n_items == 0:
            out.append((None, rng.choice(STALE_POOL)))
        else:
            k = rng.randrange(n_items)
            xs = eq[k] if spelled == "any" else eq[k][:1]
            out.append((k, rng.choice(xs) if xs else rng.choice(STALE_POOL)))
    return out


def build_transforms(case, slots):
    """slots: dict slot -> content (already spelled).  Returns the transforms dict."""
    tr = {}
    a = {}
    o = {}
    if "elements" in slots:
        a["elements"] = dict(slots["elements"])
    if "explicit" in slots:
        a["order"] = {"type": "explicit", "element_ids": list(slots["explicit"])}
    if "fixed" in slots:
        top, bottom, direction = slots["fixed"]
        order = {"type": "label", "direction": direction, "fixed": {}}
        if top is not None:
            order["fixed"]["top"] = list(top)
        if bottom is not None:
            order["fixed"]["bottom"] = list(bottom)
        a["order"] = order
    lo = slots.get("leftover")
    if lo:
        # ONE order dict that carries what several order kinds need (see LEFTOVER_CLASSES): the keys the
        # order type in force does not read are left-overs of the order it replaced
        order = {"type": lo["otype"]}
        order.update(copy.deepcopy(lo.get("order_keys") or {}))
        if "explicit" in slots:
            order["element_ids"] = list(slots["explicit"])
        if "fixed" in slots:
            top, bottom, direction = slots["fixed"]
            if lo["otype"] != "explicit":
                order["direction"] = direction      # the sort in force; expected_order reads it
            order["fixed"] = {}
            if top is not None:
                order["fixed"]["top"] = list(top)
            if bottom is not None:
                order["fixed"]["bottom"] = list(bottom)
        a["order"] = order
        if lo.get("insertions") is not None:
            a["insertions"] = copy.deepcopy(lo["insertions"])
    if "opposing" in slots and case["okey"]:
        typ, x = slots["opposing"]
        measure = "mean" if case["values"] == "means" else (
            "col_percent" if case["okey"] == "rows_dimension" else "row_percent")
        if typ == "opposing_element":
            o["order"] = {"type": typ, "element_id": x, "measure": measure}
        else:
            o["order"] = {"type": typ, "insertion_id": x, "measure": measure}
        if slots.get("opposing_direction"):
            o["order"]["direction"] = slots["opposing_direction"]
    if a:
        tr[case["akey"]] = a
    if o:
        tr[case["okey"]] = o
    return tr


def gen_slots(rng, case, eq, malformed=False):
    """Random slot contents as lists of (item, spelling) so that they can be re-spelled."""
    n = len(case["adim"]["items"])
    pm = 0.25 if malformed else 0.0
    slots = {}
    r = rng.random()
    if r < 0.55:
        refs = pick_refs(rng, eq, n, rng.randint(1, min(4, n + 1)), p_malformed=pm)
        # distinct spellings only (dict keys)
        seen, uniq = set(), []
        for k, x in refs:
            key = (type(x).__name__, x)
            if x is None:
                continue          # a None dict key cannot come from JSON
            if key not in seen:
                seen.add(key)
                uniq.append((k, x))
        slots["elements"] = [(k, x, rng.choice(PAYLOADS)) for k, x in uniq]
        km = rng.random()
        slots["keymode"] = None if km < 0.85 else ("alias" if km < 0.9 else
                                                   ("subvar_id" if km < 0.97 else "element_id"))
    r = rng.random()
    if r < 0.4:
        slots["explicit"] = pick_refs(rng, eq, n, rng.randint(0, n + 2), p_malformed=pm)
    elif r < 0.7:
        top = pick_refs(rng, eq, n, rng.randint(0, 2), p_malformed=pm) if rng.random() < 0.8 else None
        bot = pick_refs(rng, eq, n, rng.randint(0, 2), p_malformed=pm) if rng.random() < 0.7 else None
        slots["fixed"] = (top, bot, rng.choice(["ascending", "descending"]))
    if case["okey"] and rng.random() < 0.4:
        typ = "opposing_element"
        if case["okey"] == "rows_dimension" and rng.random() < 0.3:
            typ = "opposing_insertion"
        slots["opposing"] = (typ, pick_refs(rng, eq, n, 1, p_malformed=pm)[0])
    return slots


# "Left-over" transforms: ONE dimension-transforms dict / ONE order dict that carries several reference
# slots at once, because a client that lets the user switch between manual order, sort by label / value
# and hide / rename keeps what the previous setting left behind.  Every member is a legal transforms dict;
# the order type in force decides which list is read, the translation must rewrite ALL of them.
LEFTOVER_CLASSES = ["explicit+fixed", "explicit+fixed", "sort+element_ids", "explicit+sort-keys"]
LEFTOVER_INSERTIONS = [
    [],
    [{"function": "subtotal", "name": "Left over", "args": [9001, 9002], "anchor": "top"}],
    [{"function": "subtotal", "name": "Left over", "args": [9001], "anchor": "bottom", "id": 7},
     {"function": "subtotal", "name": "Gone", "args": [9003, 9004], "anchor": 9001}],
]


def leftover_descriptor(rng, klass, with_insertions):
    """What is in force (`otype`) and what is left behind next to the reference lists."""
    keys = {}
    if klass == "explicit+sort-keys" or rng.random() < 0.3:
        keys["direction"] = rng.choice(["ascending", "descending"])
        if rng.random() < 0.5:
            keys["measure"] = rng.choice(["col_percent", "row_percent", "count_unweighted"])
    return {"class": klass, "otype": "label" if klass == "sort+element_ids" else "explicit",
            "order_keys": {} if klass == "sort+element_ids" else keys,
            "insertions": copy.deepcopy(rng.choice(LEFTOVER_INSERTIONS)) if with_insertions else None}


def gen_leftover_slots(rng, case, eq):
    """Slot contents (as (item, spelling) lists, ALIAS spelling - the variants re-spell them) of a
    left-over transforms dict: explicit `element_ids` AND non-empty `fixed` lists in one order dict
    (either kind in force), explicit ids next to sort keys, optionally an `elements` dict, `insertions`
    and an order on the opposing dimension in the same transforms."""
    n = len(case["adim"]["items"])
    klass = rng.choice(LEFTOVER_CLASSES)
    slots = {"leftover": leftover_descriptor(rng, klass, rng.random() < 0.4)}
    slots["explicit"] = pick_refs(rng, eq, n, rng.randint(1, n + 1), p_stale=0.1, spelled="alias")
    if klass != "explicit+sort-keys":
        top = pick_refs(rng, eq, n, rng.randint(0, 2), p_stale=0.1, spelled="alias")
        bot = pick_refs(rng, eq, n, rng.randint(0, 2), p_stale=0.1, spelled="alias")
        if not top and not bot:
            (top if rng.random() < 0.5 else bot).extend(pick_refs(rng, eq, n, 1, p_stale=0.0, spelled="alias"))
        r = rng.random()
        slots["fixed"] = (top if (top or r < 0.5) else None, bot if (bot or r >= 0.5) else None,
                          rng.choice(["ascending", "descending"]))
    if rng.random() < 0.5:
        refs = pick_refs(rng, eq, n, rng.randint(1, min(3, n + 1)), spelled="alias")
        seen, uniq = set(), []
        for k, x in refs:
            key = (type(x).__name__, x)
            if x is not None and key not in seen:
                seen.add(key)
                uniq.append((k, x))
        slots["elements"] = [(k, x, rng.choice(PAYLOADS)) for k, x in uniq]
        slots["keymode"] = None
    if case["okey"] and rng.random() < 0.3:
        slots["opposing"] = ("opposing_element", pick_refs(rng, eq, n, 1, spelled="alias")[0])
    return slots


def spell(slots, respell=None):
    """Concrete slot contents.  respell(item, spelling) -> spelling (identity if None)."""
    f = respell or (lambda k, x: x)
    out = {}
    if "leftover" in slots:
        out["leftover"] = slots["leftover"]
    if "opposing_direction" in slots:
        out["opposing_direction"] = slots["opposing_direction"]
    if "elements" in slots:
        e = {}
        used = set()
        for k, x, p in slots["elements"]:
            y = f(k, x)
            if (type(y).__name__, y) in used:
                y = x                      # keep the keys of the dict distinct
            if (type(y).__name__, y) in used:
                out["invalid"] = True
            used.add((type(y).__name__, y))
            e[y] = copy.deepcopy(p)
        if slots.get("keymode"):
            e["key"] = slots["keymode"]
        out["elements"] = e
    if "explicit" in slots:
        out["explicit"] = [f(k, x) for k, x in slots["explicit"]]
    if "fixed" in slots:
        top, bot, direction = slots["fixed"]
        out["fixed"] = (None if top is None else [f(k, x) for k, x in top],
                        None if bot is None else [f(k, x) for k, x in bot], direction)
    if "opposing" in slots:
        typ, (k, x) = slots["opposing"]
        out["opposing"] = (typ, f(k, x))
    return out


def slot_names(slots):
    return sorted(s for s in slots if s not in ("keymode", "leftover", "opposing_direction"))


# ------------------------------------------------------------------------------------
# alias-less arrays (scorecard / fused-variables shape)
# ------------------------------------------------------------------------------------

ALIASLESS_LAYOUTS = ["mr_x_cat", "cat_x_mr", "ca", "mr", "cat_x_ca"]
ALIASLESS_IDS = ["zero", "zero", "one", "zero-shuffled", "sparse0"]
ALIASLESS_SVIDS = ["pad4", "pad4", "pad4zero", "names", "absent"]


def gen_aliasless_case(rng, k, layout, n_items, ids, svids):
    """A cube whose array dimension carries NO item aliases (value.references has only a name, as zz9
    sends the subvariables of scorecard / fused-variables dimensions, tests/fixtures/scorecard.json):
    the item's id after translation is then its numeric element id - an int, with zero-based ids the
    falsy 0.  The opposing categorical dimension gets 3-4 categories and enough respondents for a sort by
    an opposing item to differ from payload order."""
    kind = "ca" if layout in ("ca", "cat_x_ca") else "mr"
    n = n_items
    if ids == "zero":
        eids = list(range(n))
    elif ids == "one":
        eids = list(range(1, n + 1))
    elif ids == "zero-shuffled":
        eids = list(range(n))
        rng.shuffle(eids)
    else:                       # sparse, id 0 among them (anywhere)
        eids = [0] + rng.sample(range(2, 3 * n + 4), n - 1)
        rng.shuffle(eids)
    items = []
    for j in range(n):
        sv = {"pad4": "%04d" % (j + 1), "pad4zero": "%04d" % j, "names": "sv_%d" % j,
              "absent": "%04d" % (j + 1)}[svids]
        items.append({"id": eids[j], "subvar_id": sv, "alias": "m_i%d" % j, "name": "Item %s" % "ABCDEFGH"[j],
                      "missing": False})
    if kind == "mr":
        v = gen.Var(kind="mr", alias="m", name="M", items=items)
    else:
        c0 = gen.make_cat(rng, "m", n_valid=rng.randint(3, 4), n_missing=rng.choice([0, 1]))
        v = gen.Var(kind="ca", alias="m", name="M", items=items, cats=c0.cats)
    cat = gen.make_cat(rng, "c", n_valid=rng.randint(3, 4), n_missing=rng.choice([0, 0, 1]))
    variables, aliases = {"mr_x_cat": ([v, cat], ["m", "c"]), "cat_x_mr": ([cat, v], ["c", "m"]),
                          "ca": ([v], ["m"]), "mr": ([v], ["m"]),
                          "cat_x_ca": ([cat, v], ["c", "m"])}[layout]
    sv = gen.Survey(variables, rng.randint(30, 60), rng)
    resp = gen.cube_response(sv, aliases)
    dims = resp["result"]["dimensions"]
    raw_idx = 1 if layout in ("cat_x_mr", "cat_x_ca") else 0
    # strip every alias of an item: elements and subreferences, of both halves of the array
    for dd in dims[raw_idx:raw_idx + 2]:
        for sr in (dd.get("references") or {}).get("subreferences") or []:
            sr.pop("alias", None)
    for el in dims[raw_idx]["type"]["elements"]:
        el["value"]["references"].pop("alias", None)
        if svids == "absent" and kind == "ca":
            el["value"].pop("id", None)         # no sub-variable ids either (CA only: MR needs them)
    d = U.adim_of_dimension_dict(dims[raw_idx], kind == "mr")
    akey = "columns_dimension" if layout == "cat_x_mr" else "rows_dimension"
    okey = {"mr_x_cat": "columns_dimension", "cat_x_mr": "rows_dimension",
            "ca": "columns_dimension", "mr": None, "cat_x_ca": "columns_dimension"}[layout]
    return {"k": k, "layout": layout, "response": resp, "adim": d, "cube_dim": raw_idx, "akey": akey,
            "okey": okey, "values": "counts", "kind": kind, "aliasless": ids, "aliasless_svids": svids}


def aliasless_dims(rng, quick):
    """Every layout (rows / columns of a slice, a strand, the 3-D table) x id scheme; 2-3 items (quick)."""
    out = []
    k = 200000
    for layout in ALIASLESS_LAYOUTS:
        for ids in (ALIASLESS_IDS if quick else ALIASLESS_IDS * 3):
            n = rng.randint(2, 3) if quick else rng.randint(1, 5)
            if ids == "sparse0":
                n = max(n, 2)
            case = gen_aliasless_case(rng, k, layout, n, ids, rng.choice(ALIASLESS_SVIDS))
            k += 1
            out.append((case, aliasless_jobs))
    return out


def aliasless_jobs(case):
    """every item x every model-equivalent spelling x every slot (the exhaustive slots, the sort by the
    opposing item in BOTH directions), against the element-id spelling (int) - the id of the item after
    translation when it has no alias"""
    for slots, base, variants in exhaustive_jobs(case):
        yield slots, base, variants
        if "opposing" in slots:
            slots2 = dict(slots, opposing_direction="ascending")
            yield slots2, spell(slots2), [dict(v, opposing_direction="ascending") for v in variants]


# ------------------------------------------------------------------------------------
# sort the rows by an item of the opposing ARRAY dimension (array of every kind on the columns)
# ------------------------------------------------------------------------------------

OPPARRAY_LAYOUTS = ["cat_x_mr", "ca_cat_x_ca_sv", "cat_x_ca_cat_x_ca_sv"]
OPPARRAY_IDS = ["one", "zero", "sparse", "shuffled"]
OPPARRAY_DERIVED = ["none", "one-item", "none"]


def transpose_last_two(resp, shape):
    """The same cube with its last two dimensions swapped (dimension dicts and every flat row-major data
    vector): what zz9 sends for the transposed array cube, tests/fixtures/ca-cat-x-ca-subvar.json."""
    res = resp["result"]
    n_dims = len(res["dimensions"])
    assert len(shape) == n_dims
    res["dimensions"][-2], res["dimensions"][-1] = res["dimensions"][-1], res["dimensions"][-2]
    a, b = shape[-2], shape[-1]
    outer = 1
    for s in shape[:-2]:
        outer *= s

    def tr(data):
        assert len(data) == outer * a * b
        return [data[o * a * b + i * b + j] for o in range(outer) for j in range(b) for i in range(a)]

    res["counts"] = tr(res["counts"])
    for m in res["measures"].values():
        m["data"] = tr(m["data"])
    return resp


def gen_opparray_case(rng, k, layout, n_items, ids, derived):
    """A cube whose slices have an ARRAY dimension on the COLUMNS - multiple response (CAT x MR), the
    categorical array with its items as columns (CA_CAT x CA_SUBVAR, the transposed array cube) and the 3-D
    cube ending in CA_CAT x CA_SUBVAR - and 3-4 rows with enough respondents for a sort of the rows by one
    column to differ from payload order.  `derived`: one item carries zz9's "derived" flag (a computed
    sub-variable the user sees as a subtotal - what a client references with `opposing_insertion`)."""
    kind = "mr" if layout == "cat_x_mr" else "ca"
    eids = U.scheme_ids(rng, n_items, ids)
    sv_names = rng.random() < 0.25
    items = [{"id": eids[j], "subvar_id": ("m_sv%d" % j) if sv_names else "%04d" % (j + 1),
              "alias": "m_i%d" % j, "name": "Item %s" % "ABCDEFGH"[j], "missing": False}
             for j in range(n_items)]
    if derived == "one-item":
        items[rng.randrange(n_items)]["derived"] = True
    if kind == "mr":
        v = gen.Var(kind="mr", alias="m", name="M", items=items)
    else:
        c0 = gen.make_cat(rng, "m", n_valid=rng.randint(3, 4), n_missing=rng.choice([0, 0, 1]))
        v = gen.Var(kind="ca", alias="m", name="M", items=items, cats=c0.cats)
    variables, aliases = [v], ["m"]
    if layout == "cat_x_mr":
        cat = gen.make_cat(rng, "c", n_valid=rng.randint(3, 4), n_missing=rng.choice([0, 0, 1]))
        variables, aliases = [cat, v], ["c", "m"]
    elif layout == "cat_x_ca_cat_x_ca_sv":
        cat = gen.make_cat(rng, "c", n_valid=rng.randint(1, 2), n_missing=0)
        variables, aliases = [cat, v], ["c", "m"]
    sv = gen.Survey(variables, rng.randint(30, 60), rng)
    resp = gen.cube_response(sv, aliases)
    dims = resp["result"]["dimensions"]
    if kind == "ca":
        shape = tuple(s for a in aliases for s in gen.var_shape(sv.var(a)))
        transpose_last_two(resp, shape)
    raw_idx = {"cat_x_mr": 1, "ca_cat_x_ca_sv": 1, "cat_x_ca_cat_x_ca_sv": 2}[layout]
    d = U.adim_of_dimension_dict(dims[raw_idx], kind == "mr")
    return {"k": k, "layout": layout, "response": resp, "adim": d, "cube_dim": raw_idx,
            "akey": "columns_dimension", "okey": "rows_dimension", "values": "counts", "kind": kind,
            "opparray": derived}


def opparray_dims(rng, quick):
    """Every array kind the generator can put on the columns x element-id scheme x derived flag."""
    out = []
    k = 300000
    for layout in OPPARRAY_LAYOUTS:
        for ids in (OPPARRAY_IDS if quick else OPPARRAY_IDS * 3):
            n = rng.randint(2, 3) if quick else rng.randint(1, 5)
            case = gen_opparray_case(rng, k, layout, n, ids, rng.choice(OPPARRAY_DERIVED))
            k += 1
            out.append((case, opparray_jobs))
    return out


def opparray_jobs(case):
    """every item x {opposing_insertion, opposing_element} x {descending, ascending} - one of the two
    directions differs from payload order - x every spelling the model resolves to the item, against the
    alias spelling; plus one stale reference per sort type (payload-order fallback)."""
    al = U.aliases(case["adim"])
    eq = case["eq"]
    for typ in ("opposing_insertion", "opposing_element"):
        for k in range(len(al)):
            if case["adim"]["items"][k]["missing"] or not eq[k]:
                continue
            alts = [x for x in eq[k] if not U.py_eq(x, al[k])]
            for direction in (None, "ascending"):
                slots = {"opposing": (typ, (k, al[k]))}
                if direction:
                    slots["opposing_direction"] = direction
                yield slots, spell(slots), [spell(slots, (lambda kk, x, a=a: a)) for a in alts]
        slots = {"opposing": (typ, (None, "zz-stale"))}
        yield slots, spell(slots), []


# ------------------------------------------------------------------------------------
# comparison helpers
# ------------------------------------------------------------------------------------


def cause_of(case, transforms):
    """Classification used for the known-findings signatures."""
    tdim = (transforms or {}).get(case["akey"]) or {}
    e, ids, top, bot = U.xf_parts(tdim)
    lists = [l for l in (ids, top, bot) if l]
    if any(x is None for l in lists for x in l):
        return "none-in-id-list"
    if e and any(k is None for k in e):
        return "none-key"
    return "other"


def first_output_diff(a, b):
    for key in sorted(set(a) | set(b)):
        if a.get(key) != b.get(key):
            return key, a.get(key), b.get(key)
    return None


def expected_order(case, view, payloads, slots_c):
    """Display order (payload indices of valid elements) predicted from the model's `consume`
    view - only for shapes where the collators are a function of the mentions alone."""
    d = case["adim"]
    items = d["items"]
    if any(it["derived"] or it["ins"] for it in items):
        return None
    valid = [i for i, it in enumerate(items) if not it["missing"]]
    rank = {i: r for r, i in enumerate(valid)}
    hidden = set()
    labels = {}
    for i in valid:
        pv = view["elem"][i]
        p = payloads.items[pv[1]][1] if pv is not None and pv[0] == "payload" else {}
        if not isinstance(p, dict):
            return None
        if p.get("hide") is True:
            hidden.add(i)
        if "name" in p:
            labels[i] = str(p["name"]) if p["name"] else ""
        else:
            labels[i] = items[i]["name"] or ""
    otype = (slots_c.get("leftover") or {}).get("otype")     # left-over dicts: the order type in force
    if "explicit" in slots_c and otype in (None, "explicit"):
        seq, seen = [], set()
        for i in view["order"]:
            if i in rank and i not in seen:
                seen.add(i)
                seq.append(i)
        seq += [i for i in valid if i not in seen]
        return [rank[i] for i in seq if i not in hidden]
    if "fixed" in slots_c and otype in (None, "label"):
        top = [i for i in view["top"] if i in rank]
        bot = [i for i in view["bottom"] if i in rank]
        if len(set(top + bot)) != len(top + bot):
            return None          # repeated mentions: another property's business (C05/C08)
        body = [i for i in valid if i not in top and i not in bot]
        if len(set(labels[i] for i in body)) != len(body):
            return None          # ties between labels
        body.sort(key=lambda i: labels[i], reverse=(slots_c["fixed"][2] != "ascending"))
        return [rank[i] for i in top + body + bot if i not in hidden]
    return None


# ------------------------------------------------------------------------------------
# the run
# ------------------------------------------------------------------------------------


def run(tier, seed):
    rep = core.Report(PID, tier, seed)
    ob = core.obligations_gate(rep, PID)
    thorough = tier == "thorough"
    n_cases = 260 if not thorough else 4000
    n_dt = 60 if not thorough else 800
    rng = random.Random(seed)
    cases = [gen_dim_case(rng, k) for k in range(n_cases)]
    exhaustive = exhaustive_dims(random.Random(seed + 17), 2 if not thorough else 4)
    ex_cases = [c for c, _ in exhaustive]
    # alias-less arrays (scorecard / fused-variables shape), own random stream
    aliasless = aliasless_dims(random.Random(seed + 23), not thorough)
    al_cases = [c for c, _ in aliasless]
    # rows sorted by an item of the opposing array dimension, array of every kind on the columns; own stream
    opparray = opparray_dims(random.Random(seed + 29), not thorough)
    oa_cases = [c for c, _ in opparray]
    all_cases = cases + ex_cases + al_cases + oa_cases

    # ---- phase 1: the cascade itself -------------------------------------------------
    terms, index = [], []
    for ci, case in enumerate(all_cases):
        d = case["adim"]
        terms.append("r_bool (wfb %s)" % U.g_adim(d))
        index.append((ci, "wfb", None))
        bat = battery(d)
        case["battery"] = bat
        gd = U.g_adim(d)
        terms.append("r_lst (r_res r_ident) (map (translate %s) %s)" % (gd, U.g_idents(bat)))
        index.append((ci, "translate", None))
    results, coq1 = core.run_coq_cases(PID, IMPORTS, terms, tag="p1")
    for (ci, what, _), toks in zip(index, results):
        case = all_cases[ci]
        dec = U.Dec(toks)
        if what == "wfb":
            case["wf"] = dec.bool()
        else:
            case["model_translate"] = dec.list(lambda: dec.res(dec.ident))
    for case in all_cases:
        d = case["adim"]
        dim = impl.guarded(lambda: impl_dim(case))
        if dim[0] != "ok":
            rep.violation("impl-raises", replayable(case, None), {"where": "dimension", "exc": dim[1:]},
                          {"cause": "construct"})
            case["dead"] = True
            continue
        dim = dim[1]
        al = U.aliases(d)
        eq = [[] for _ in d["items"]]
        for x, m in zip(case["battery"], case["model_translate"]):
            got = impl_translate(dim, x)
            rep.cov["evaluations"] += 1
            if got != m:
                ctx = {"what": "translate", "cause": "none-ref" if x is None else "other"}
                rep.violation("impl-vs-model", replayable(case, None, ident=x),
                              {"ident": x, "impl": got, "model": m, "what": "translate_element_id"}, ctx)
            elif x is None and m[0] == "exc":
                # agreed behaviour, but the property text says references that match nothing are
                # ignored rather than raising
                rep.violation("impl-raises", replayable(case, None, ident=x),
                              {"ident": None, "impl": got, "what": "translate_element_id(None)"},
                              {"cause": "none-ref"})
            if m[0] == "ok" and m[1] is not None:
                for k in range(len(al)):
                    if U.py_eq(m[1], al[k]) and al.count(al[k]) == 1:
                        eq[k].append(x)
        # canonical (alias) spelling first
        for k in range(len(al)):
            eq[k].sort(key=lambda x: (not U.py_eq(x, al[k]), repr(x)))
        case["eq"] = eq
        if case["wf"]:
            # under wf the four spellings of the property text MUST all resolve to the item
            # (theorem C19_translate_spellings) - asserted on the implementation directly
            for k in range(len(al)):
                for rule, x in U.spellings_of_item(d, k):
                    if rule in ("pos", "posstr"):
                        continue
                    got = impl_translate(dim, x)
                    if got != ("ok", al[k]):
                        rep.violation("spelling-not-resolved", replayable(case, None, ident=x),
                                      {"item": k, "rule": rule, "ident": x, "impl": got,
                                       "expected": al[k]}, {"what": "wf-spelling"})
        rep.dist("wf" if case["wf"] else "not-wf")
        rep.dist("layout=" + case["layout"])
        rep.dist("mr_ins" if d["mr_ins"] else "no-mr-ins")
        if any(it["ins"] for it in d["items"]):
            rep.dist("has-derived-items")
        if case.get("opparray"):
            rep.dist("opposing-array-item:columns=%s" % {"mr": "MR_SUBVAR", "ca": "CA_SUBVAR"}[case["kind"]])
            rep.dist("opposing-array-item:layout=%s" % case["layout"])
            rep.dist("opposing-array-item:derived-flag=%s" % case["opparray"])
        if case.get("aliasless"):
            rep.dist("aliasless:ids=%s" % case["aliasless"])
            rep.dist("aliasless:layout=%s" % case["layout"])
            rep.dist("aliasless:subvar-ids=%s" % case["aliasless_svids"])
            zero = [k for k, it in enumerate(d["items"]) if it["eid"] == 0]
            if zero:
                rep.dist("aliasless:spellings-of-the-id-0-item=%d" % len(case["eq"][zero[0]]))

    # ---- phase 2: transforms, model of the rewriting ---------------------------------
    rng2 = random.Random(seed + 1)
    jobs = []          # (case, slots, variants[list of concrete slot dicts], malformed?)
    for ci, case in enumerate(cases):
        if case.get("dead"):
            continue
        malformed = rng2.random() < 0.1
        slots = gen_slots(rng2, case, case["eq"], malformed=malformed)
        if not slot_names(slots):
            slots["explicit"] = pick_refs(rng2, case["eq"], len(case["adim"]["items"]), 2)
        base = spell(slots)
        variants = []
        if not malformed and slots.get("keymode") not in ("alias", "subvar_id"):
            for _v in range(2 if not thorough else 3):
                eqs = case["eq"]
                v = spell(slots, lambda k, x: x if k is None or not eqs[k]
                          else rng2.choice(eqs[k]))
                if not v.pop("invalid", False):
                    variants.append(v)
        jobs.append({"case": case, "slots": slots, "base": base, "variants": variants,
                     "malformed": malformed, "exhaustive": False})
    # left-over transforms dicts (several reference slots in ONE order / transforms dict): own stream, so
    # that the single-slot stream above stays what it was; base = alias spelling, variants re-spelled
    rng3 = random.Random(seed + 3)
    for ci, case in enumerate(cases):
        if case.get("dead") or not case["adim"]["items"] or rng3.random() >= (0.45 if not thorough else 0.6):
            continue
        slots = gen_leftover_slots(rng3, case, case["eq"])
        base = spell(slots)
        variants = []
        eqs = case["eq"]
        for _v in range(2 if not thorough else 3):
            v = spell(slots, lambda k, x: x if k is None or not eqs[k] else rng3.choice(eqs[k]))
            if not v.pop("invalid", False):
                variants.append(v)
        jobs.append({"case": case, "slots": slots, "base": base, "variants": variants,
                     "malformed": False, "exhaustive": False})
    for case, exjobs in exhaustive + aliasless + opparray:
        if case.get("dead"):
            continue
        for slots, base, variants in exjobs(case):
            jobs.append({"case": case, "slots": slots, "base": base, "variants": variants,
                         "malformed": False,
                         "exhaustive": not case.get("aliasless") and not case.get("opparray")})
    terms = []
    for job in jobs:
        case = job["case"]
        pay = U.Payloads()
        job["pay"] = pay
        job["tr_base"] = build_transforms(case, job["base"])
        job["tr_vars"] = [build_transforms(case, v) for v in job["variants"]]
        gd = U.g_adim(case["adim"])
        tds = [job["tr_base"].get(case["akey"])] + [t.get(case["akey"]) for t in job["tr_vars"]]
        job["n_model"] = len(tds)
        for td in tds:
            gx = U.g_xf(td, pay)
            terms.append("let r := shim_xf %s %s in (r_shim r ++ r_view (consume %s (fst r)))%%list" % (gd, gx, gd))
        if "opposing" in job["base"]:
            xs = [job["base"]["opposing"][1]] + [v["opposing"][1] for v in job["variants"]]
            terms.append("r_lst (r_res (r_option (fun n => [Z.of_nat n]))) (map (opp_index %s) %s)"
                         % (gd, U.g_idents(xs)))
    results, coq2 = core.run_coq_cases(PID, IMPORTS, terms, tag="p2") if terms else ([], 0.0)
    pos = 0
    for job in jobs:
        job["model"] = []
        for _ in range(job["n_model"]):
            dec = U.Dec(results[pos])
            pos += 1
            t, exc = dec.shim()
            job["model"].append((U.model_xf_canon(t), exc, dec.view()))
        if "opposing" in job["base"]:
            dec = U.Dec(results[pos])
            pos += 1
            job["model_opp"] = dec.list(lambda: dec.res(lambda: dec.opt(dec.Z)))

    # ---- phase 3: the implementation -------------------------------------------------
    for job in jobs:
        check_job(rep, job)

    # ---- datetime ----------------------------------------------------------------------
    dt_stats = run_datetime(rep, random.Random(seed + 2), n_dt)

    rep.cov["rule"] = (
        "dimensions from random.Random(seed): MR (with derived/inserted items and view insertions), "
        "CA, 3-D CAT x CA, numeric arrays, MR strands; element ids 1-based/0-based/sparse/shuffled/"
        "negative, sub-variable ids zero-padded / digit strings colliding with element ids / names, "
        "aliases occasionally colliding with other spellings or absent, items occasionally missing; "
        "transforms: hide/rename keys (key modes none/alias/subvar_id/other), explicit order, fixed "
        "top/bottom under label sort, sort by opposing element / opposing derived insertion; left-over "
        "dicts on ~45% of the dimensions (one order dict with element_ids AND fixed lists under type "
        "explicit / label, explicit ids next to sort keys, +- elements dict, insertions, opposing order; "
        "base = alias spelling, 2-3 re-spelled variants); alias-less arrays (see aliasless_scope); rows sorted by "
        "an item of the array on the columns, MR and CA (see opposing_array_item_scope); ~15% stale "
        "and ~10% malformed cases (None, '', '1x', '+1'); non-trivial = a case with >= 1 reference "
        "re-spelled by a non-alias spelling or a translate battery with >= 1 non-alias hit; distinct by "
        "content hash")
    rep.cov["coq_eval_seconds"] = round(coq1 + coq2, 2)
    rep.cov["exhaustive_scope"] = {
        "scope": "plain MR (with and without insertion flag) and CA dimensions with 1..%d items x every "
                 "item x spellings {alias, subvar id, int id, str id, position int/str when valid} x "
                 "slots {hide, rename, explicit, fixed top, fixed bottom, opposing element, and the "
                 "left-over dicts explicit+fixed, sort+element_ids, elements+order+insertions}"
                 % (2 if not thorough else 4),
        "jobs": sum(1 for j in jobs if j["exhaustive"])}
    rep.cov["aliasless_scope"] = {
        "scope": "arrays WITHOUT item aliases (scorecard / fused-variables shape: the translated id of an item "
                 "is its element id, an int, 0 included): layouts %s x element ids %s x sub-variable ids %s; "
                 "every item x every spelling the model resolves to it (int id, str id, sub-variable id, "
                 "zero-padded digits, position) x slots {hide, rename, explicit, fixed top / bottom, the left-over "
                 "dicts, sort by the opposing item descending AND ascending}; the sort by an opposing item is "
                 "additionally checked absolutely (the sorted dimension is monotone in the measure of the item "
                 "the model resolves the reference to)" % (ALIASLESS_LAYOUTS, sorted(set(ALIASLESS_IDS)),
                                                          sorted(set(ALIASLESS_SVIDS))),
        "dimensions": len(al_cases),
        "jobs": sum(1 for j in jobs if j["case"].get("aliasless"))}
    rep.cov["opposing_array_item_scope"] = {
        "scope": "slices with an array dimension on the COLUMNS: layouts %s (MR_SUBVAR, CA_SUBVAR of the "
                 "transposed array cube, CA_SUBVAR of a 3-D cube) x element ids %s x one item flagged derived or "
                 "none; every item x rows order {opposing_insertion, opposing_element} x {descending, ascending} x "
                 "every spelling the model resolves to the item + a stale reference; relational (= alias spelling) "
                 "and absolute (rows monotone in the measure of the resolved item) oracle"
                 % (OPPARRAY_LAYOUTS, OPPARRAY_IDS),
        "dimensions": len(oa_cases),
        "jobs": sum(1 for j in jobs if j["case"].get("opparray"))}
    rep.cov["datetime"] = dt_stats
    rep.assumptions = [
        "identifiers are int / str (printable ASCII) / None; bool and float ids are outside the model",
        "int(str) modelled for optional sign + ASCII digits only (no whitespace, underscores, non-ASCII digits)",
        "the late translation is observed through Dimension.translate_element_id of a dimension built by "
        "Cube.dimensions[i].apply_transforms (what partitions do)",
    ]
    return rep.finish("proof", ob, trusted_base=core.TRUSTED_BASE_COMMON + [
        _dimension_trusted_base(),
        "Model/Shim.v is hand-written; tied to dimension.py (_ElementIdShim), Elements.from_typedef and "
        "the sort-by-opposing-element helpers of matrix/assembler.py by this correspondence run only",
        "equivalence of spellings outside the proved [wf] class is decided by the model's translate"])


def check_job(rep, job):
    case = job["case"]
    d = case["adim"]
    pay = job["pay"]
    akey = case["akey"]
    trs = [job["tr_base"]] + job["tr_vars"]
    outs = []
    for vi, tr in enumerate(trs):
        out, after = impl_outputs(case, tr)
        used = impl_used_dict(case, tr)
        outs.append((out, used))
        mt, mexc, mview = job["model"][vi]
        rcase = replayable(case, tr)
        nontrivial = vi > 0 or any(not U.py_eq(x, U.aliases(d)[k]) for k, x in all_refs(job["slots"]) if k is not None)
        rep.count_case({"r": case["response"], "t": tr}, nontrivial)
        cause = cause_of(case, tr)
        if cause == "other" and mexc is None and any(
                l is not None and any(x is None for x in l)
                for l in (mt["element_ids"], mt["top"], mt["bottom"])):
            cause = "stale-id-rewritten-to-none"
        label_read = "0.column_labels" if akey == "columns_dimension" else "0.row_labels"
        got_label = out.get(label_read, out.get("partitions"))
        impl_raised = got_label is None or got_label[0] == "exc"
        # (a) the caller's dict is deep-equal to its pristine copy (a translation that raises leaves
        #     it untouched as well); the translated dict is the one the dimension uses
        if not U.same_json(after, tr):
            rep.violation("impl-vs-model", rcase, {"what": "the caller's transforms dict is no longer "
                          "deep-equal to its pristine copy", "after": core.jsonable(after.get(akey)),
                          "given": core.jsonable(tr.get(akey)), "model_exc": mexc},
                          {"what": "caller-dict-changed", "cause": cause})
        if used[0] == "ok" and not U.same_json(U.untranslated_part(used[1]),
                                               U.untranslated_part(tr.get(akey))):
            rep.violation("impl-vs-model", rcase, {"what": "the untranslated part of the dict the dimension "
                          "uses differs from the caller's", "used": core.jsonable(used[1]),
                          "given": core.jsonable(tr.get(akey))}, {"what": "shim-dict-rest", "cause": cause})
        if used[0] == "missing-attr":
            rep.violation("impl-vs-model", rcase, {"what": "cannot observe the translated transforms dict",
                          "detail": used[1]}, {"what": "shim-dict-unobservable", "cause": cause},
                          failing_input=False)
        elif used[0] == "ok" and mexc is None:
            canon = U.canon_xf(used[1], pay)
            if canon != mt:
                rep.violation("impl-vs-model", rcase, {"what": "translated transforms dict",
                              "impl": canon, "model": mt, "model_exc": mexc},
                              {"what": "shim-dict", "cause": cause})
        elif (used[0] == "ok") != (mexc is None):
            rep.violation("impl-vs-model", rcase, {"what": "translated transforms dict: exception",
                          "impl": used if used[0] != "ok" else "ok", "model_exc": mexc},
                          {"what": "shim-exception", "cause": cause})
        if (mexc is not None) != impl_raised or (impl_raised and mexc and got_label[1] != mexc):
            rep.violation("impl-vs-model", rcase, {"what": "exception", "impl": got_label,
                          "model_exc": mexc}, {"what": "shim-exception", "cause": cause})
        # (b) property: references never make a read raise
        raised = {k: v for k, v in out.items() if v[0] == "exc"}
        if raised:
            c2 = cause
            if cause == "stale-id-rewritten-to-none" and all(k.startswith("1.") for k in raised):
                c2 = "stale-id-reshim"      # second partition re-translates the None
            rep.violation("impl-raises", rcase, {"raised": raised, "cause": c2}, {"cause": c2})
            continue
        # (c) consumers: payload per element, displayed order
        dim = impl.guarded(lambda: impl_dim(case, copy.deepcopy(tr.get(akey) or {})))
        if dim[0] == "ok" and mexc is None:
            els = impl.guarded(lambda: [(e.is_hidden, e.label) for e in dim[1].all_elements])
            if els[0] == "ok":
                rep.dist("checked:element-transforms")
                for i, (hid, lab) in enumerate(els[1]):
                    pv = mview["elem"][i]
                    p = pay.items[pv[1]][1] if pv is not None and pv[0] == "payload" else {}
                    if not isinstance(p, dict):
                        continue
                    exp_hid = p.get("hide") is True
                    exp_lab = (str(p["name"]) if p["name"] else "") if "name" in p else (d["items"][i]["name"] or "")
                    if hid != exp_hid or lab != exp_lab:
                        rep.violation("impl-vs-model", rcase, {"what": "element transform", "item": i,
                                      "impl": [hid, lab], "model": [exp_hid, exp_lab]},
                                      {"what": "consume-elem", "cause": cause})
            order_read = "0.column_order" if akey == "columns_dimension" else "0.row_order"
            exp = expected_order(case, mview, pay, job["base"] if vi == 0 else job["variants"][vi - 1])
            if exp is not None and order_read in out and case["layout"] != "cat_x_ca":
                rep.dist("checked:display-order-predicted")
                got = out[order_read][1][:-1]
                if got != exp:
                    rep.violation("impl-vs-model", rcase, {"what": "display order", "impl": got,
                                  "model": exp}, {"what": "consume-order", "cause": cause})
        if "opposing" in job["base"]:
            mo = job["model_opp"][vi]
            if mo[0] == "ok" and mo[1] is None:
                rep.dist("checked:opposing-stale-fallback")
                # stale opposing element: payload order fallback - compare with no order at all
                plain = copy.deepcopy(tr)
                plain[case["okey"]].pop("order", None)
                pout, _ = impl_outputs(case, plain)
                o_read = "0.row_order" if case["okey"] == "rows_dimension" else "0.column_order"
                if pout.get(o_read) != out.get(o_read):
                    rep.violation("impl-vs-model", rcase, {"what": "stale opposing element must fall "
                                  "back to payload order", "impl": out.get(o_read), "payload": pout.get(o_read)},
                                  {"what": "opposing-stale", "cause": cause})
            elif mo[0] == "ok" and (
                    job["base"]["opposing"][0] == "opposing_element"
                    # an `opposing_insertion` reference to an ITEM of the array on the columns (there is no
                    # such translation for an array on the rows: matrix/assembler.py has the derived-column
                    # helper only) sorts the rows by that item exactly as `opposing_element` does
                    or (job["base"]["opposing"][0] == "opposing_insertion" and akey == "columns_dimension")) \
                    and (case.get("opparray") or not any(it["derived"] or it["ins"] for it in d["items"])):
                # the model resolves the reference to item mo[1] (offset among the valid items): the
                # opposing dimension must then be sorted by THAT item's measure, whatever the spelling
                otyp = job["base"]["opposing"][0]
                bad = opposing_absolute_fail(case, tr, mo[1])
                if bad is not None and bad.get("skipped"):
                    rep.dist("skipped:opposing-absolute:" + bad["skipped"])
                    if case.get("opparray"):
                        rep.dist("opposing-array-item:skipped:" + bad["skipped"])
                elif bad is not None:
                    rep.violation("impl-vs-model", dict(replayable(case, tr), kind="opposing-absolute",
                                                        opp_item=mo[1]),
                                  dict(bad, reference=(tr.get(case["okey"]) or {}).get("order", {}).get(
                                      "element_id" if otyp == "opposing_element" else "insertion_id"),
                                       sort_type=otyp, model_item=mo[1]),
                                  {"what": "opposing-absolute", "cause": cause})
                else:
                    rep.dist("checked:opposing-sorted-by-the-resolved-item")
                    if otyp == "opposing_insertion":
                        rep.dist("checked:opposing_insertion-sorted-by-the-resolved-array-item")
                    if case.get("opparray"):
                        rep.dist("opposing-array-item:checked:%s:%s-columns:sorted-by-the-resolved-item"
                                 % (otyp, {"mr": "MR_SUBVAR", "ca": "CA_SUBVAR"}[case["kind"]]))
                    if case.get("aliasless"):
                        rep.dist("aliasless:checked:opposing-sorted-by-the-resolved-item")
    # (d) relational oracle: all spellings give identical outputs and identical rewritten dicts
    base_out, base_used = outs[0]
    if any(v[0] == "exc" for v in base_out.values()):
        return
    for vi in range(1, len(outs)):
        out, used = outs[vi]
        if any(v[0] == "exc" for v in out.values()):
            continue
        diff = first_output_diff(base_out, out)
        rep.dist("checked:relational-pair" + ("-wf" if case["wf"] else "-notwf"))
        if diff is not None:
            rep.violation("spellings-differ", {"response": case["response"], "transforms": trs[0],
                          "transforms_2": trs[vi], "layout": case["layout"], "akey": akey,
                          "okey": case["okey"], "cube_dim": case["cube_dim"], "values": case["values"],
                          "kind": "relational"},
                          {"read": diff[0], "base": diff[1], "variant": diff[2],
                           "slots": slot_names(job["slots"]), "wf": case["wf"]},
                          {"what": "relational", "wf": case["wf"]})
        elif used[0] == "ok" and base_used[0] == "ok" \
                and U.canon_xf(used[1], pay) != U.canon_xf(base_used[1], pay) \
                and job["slots"].get("keymode") in (None,):
            rep.violation("spellings-differ", replayable(case, trs[vi]),
                          {"what": "translated dicts differ", "base": core.jsonable(base_used[1]),
                           "variant": core.jsonable(used[1])}, {"what": "relational-dict", "wf": case["wf"]})
    for s in slot_names(job["slots"]):
        rep.dist("slot=" + s)
    lo = job["slots"].get("leftover")
    if lo:
        rep.dist("leftover:" + lo["class"])
        if "elements" in job["slots"]:
            rep.dist("leftover:+elements-dict")
        if lo.get("insertions") is not None:
            rep.dist("leftover:+insertions")
        if "opposing" in job["slots"]:
            rep.dist("leftover:+opposing-order")
        tdim = job["tr_base"].get(akey) or {}
        _e, ids, top, bot = U.xf_parts(tdim)
        if ids and (top or bot):
            rep.dist("leftover:order-dict-with-element_ids-and-non-empty-fixed")
    if job["malformed"]:
        rep.dist("malformed-stream")
    rep.sample({"layout": case["layout"], "transforms": trs[0],
                "respelled": trs[1] if len(trs) > 1 else None}, limit=3)


def opposing_absolute_fail(case, tr, item):
    """Absolute oracle of the sort-by-opposing-element slot: `item` = offset (among the valid items of the
    array dimension) of the item the model resolves the reference to.  The other dimension must be displayed
    in an order that is monotone (by the direction of the order dict, descending by default) in the measure
    of that item, read from the sorted partition itself - ties are free, so no tie rule is assumed.
    -> None (holds) | {"skipped": why} | description of the failure."""
    okey, akey = case["okey"], case["akey"]
    order = (tr.get(okey) or {}).get("order") or {}
    descending = order.get("direction", "descending") != "ascending"
    resp, t = copy.deepcopy(case["response"]), copy.deepcopy(tr)
    r = impl.guarded(lambda: impl.Cube(resp, transforms=t).partitions[0])
    if r[0] != "ok":
        return {"skipped": "partition-raises"}
    part = r[1]
    a_axis, o_axis = ("column", "row") if akey == "columns_dimension" else ("row", "column")
    meas = "means" if case["values"] == "means" else (
        "column_proportions" if okey == "rows_dimension" else "row_proportions")
    a_order, o_order, m = (impl.get(part, a_axis + "_order"), impl.get(part, o_axis + "_order"),
                           impl.get(part, meas))
    if a_order[0] != "ok" or o_order[0] != "ok" or m[0] != "ok":
        return {"skipped": "read-raises"}
    a_order, o_order = [int(x) for x in a_order[1]], [int(x) for x in o_order[1]]
    if item not in a_order:
        return {"skipped": "item-not-displayed"}
    if any(x < 0 for x in o_order):
        return {"skipped": "insertions-in-sorted-dimension"}
    m = np.asarray(m[1], dtype=float)
    if m.ndim != 2:
        return {"skipped": "not-2d"}
    j = a_order.index(item)
    vec = [float(x) for x in (m[:, j] if a_axis == "column" else m[j, :])]
    if any(x != x for x in vec):
        return {"skipped": "nan-in-sort-vector"}
    for p in range(len(vec) - 1):
        a, b = (vec[p], vec[p + 1]) if descending else (vec[p + 1], vec[p])
        if a < b - 1e-9 * max(1.0, abs(a), abs(b)):
            return {"what": "the dimension sorted by an opposing item is not in the order of that item's "
                            "measure", "measure": meas, "direction": "descending" if descending else "ascending",
                    "values_of_the_item_in_display_order": vec, "display_order": o_order,
                    "item_displayed_at": j}
    if len(set(vec)) < 2:
        return {"skipped": "constant-sort-vector"}
    return None


def all_refs(slots):
    out = []
    if "elements" in slots:
        out += [(k, x) for k, x, _p in slots["elements"]]
    if "explicit" in slots:
        out += list(slots["explicit"])
    if "fixed" in slots:
        out += list(slots["fixed"][0] or []) + list(slots["fixed"][1] or [])
    if "opposing" in slots:
        out.append(slots["opposing"][1])
    return out


# ------------------------------------------------------------------------------------
# exhaustive small scope
# ------------------------------------------------------------------------------------


def exhaustive_dims(rng, max_items):
    out = []
    k = 100000
    for n in range(1, max_items + 1):
        for layout, with_ins in (("mr_x_cat", False), ("mr_x_cat", True), ("cat_x_mr", False), ("ca", False)):
            case = gen_dim_case(rng, k, layout=layout, n_items=n, plain=True)
            k += 1
            if with_ins:
                # flag the dimension as "MR with insertions" and its first item as inserted
                dd = case["response"]["result"]["dimensions"][0]
                dd["references"]["view"] = {"transform": {"insertions": [
                    {"function": "any_selected", "name": "m item 0", "anchor": "top", "kwargs": {}}]}}
                el = dd["type"]["elements"][0]
                el["value"]["derived"] = True
                el["value"]["references"]["anchor"] = "top"
                case["adim"] = U.adim_of_dimension_dict(dd, True)
            out.append((case, exhaustive_jobs))
    return out


def exhaustive_jobs(case):
    """every item x every model-equivalent spelling x every slot, against the alias spelling"""
    d = case["adim"]
    al = U.aliases(d)
    eq = case["eq"]
    for k in range(len(al)):
        alts = [x for x in eq[k] if not U.py_eq(x, al[k])]
        other = (k + 1) % len(al)
        for slot in ("hide", "rename", "explicit", "top", "bottom", "opposing",
                     "explicit+fixed", "sort+element_ids", "elements+order+insertions"):
            if slot == "opposing" and not case["okey"]:
                continue
            if slot == "hide":
                slots = {"elements": [(k, al[k], {"hide": True})], "keymode": None}
            elif slot == "rename":
                slots = {"elements": [(k, al[k], {"name": "Renamed"})], "keymode": None}
            elif slot == "explicit":
                slots = {"explicit": [(k, al[k]), (other, al[other])]}
            elif slot == "top":
                slots = {"fixed": ([(k, al[k])], None, "ascending")}
            elif slot == "bottom":
                slots = {"fixed": (None, [(k, al[k])], "descending")}
            elif slot == "explicit+fixed":
                # manual order in force, the fixed lists of the sort it replaced left behind
                slots = {"explicit": [(k, al[k]), (other, al[other])],
                         "fixed": ([(other, al[other])], [(k, al[k])], "descending"),
                         "leftover": {"class": slot, "otype": "explicit",
                                      "order_keys": {"direction": "descending"}, "insertions": None}}
            elif slot == "sort+element_ids":
                # sort by label with fixed lists in force, the manual order it replaced left behind
                slots = {"explicit": [(other, al[other]), (k, al[k])],
                         "fixed": ([(k, al[k])], None, "ascending") if k % 2 == 0 else
                                  (None, [(k, al[k])], "ascending"),
                         "leftover": {"class": slot, "otype": "label", "order_keys": {}, "insertions": None}}
            elif slot == "elements+order+insertions":
                slots = {"elements": [(k, al[k], {"name": "Renamed"})], "keymode": None,
                         "explicit": [(k, al[k]), (other, al[other])],
                         "fixed": ([(k, al[k])], None, "ascending"),
                         "leftover": {"class": slot, "otype": "explicit", "order_keys": {},
                                      "insertions": copy.deepcopy(LEFTOVER_INSERTIONS[1])}}
            else:
                slots = {"opposing": ("opposing_element", (k, al[k]))}
            base = spell(slots)
            variants = [spell(slots, (lambda kk, x, a=a: a if kk == k else x)) for a in alts]
            yield slots, base, variants


# ------------------------------------------------------------------------------------
# datetime
# ------------------------------------------------------------------------------------

DT_IMPORTS = IMPORTS


def g_dtdim(els):
    parts = []
    for el in els:
        v = el["value"]
        parts.append("(%s, %s)" % (U.g_ident(el["id"]),
                                   "DMissing" if isinstance(v, dict) else "(DVal %s)" % U.g_ident(v)))
    return core.g_list(parts)


MISSING_LAYOUTS = ["none", "first", "middle", "last", "several", "first", "middle", "several"]
DT_SLOTS = ("hide", "rename", "explicit", "fixed-top", "fixed-bottom", "opposing",
            "explicit+fixed", "sort+element_ids")       # the last two: left-over order dicts


def layout_missing(rng, dt):
    """Re-arrange the elements of a generated datetime variable (before any respondent answers): the
    missing ('No Data', value {"?": -1}) element absent / first / in the middle / last / several of
    them; ids are the payload positions (as the server numbers them), now and then sparse ascending
    ids (an id is the element's own field, not an index).  -> (layout, ids kind)"""
    valid = [e for e in dt.elements if not isinstance(e["value"], dict)]
    n = len(valid)
    where = rng.choice(MISSING_LAYOUTS)
    if where == "middle" and n < 2:
        where = "first"
    slots = {"none": [], "first": [0], "last": [n],
             "middle": [rng.randint(1, max(1, n - 1))],
             "several": sorted(rng.choice(range(n + 1)) for _ in range(rng.randint(2, 3)))}[where]
    els, n_missing = [], 0
    for pos in range(n + 1):
        for _ in range(slots.count(pos)):
            els.append({"value": {"?": -1 if n_missing == 0 else -8}, "missing": True})
            n_missing += 1
        if pos < n:
            els.append({"value": valid[pos]["value"], "missing": False})
    ids_kind = "positions"
    ids = list(range(len(els)))
    if rng.random() < 0.15:
        ids_kind = "sparse"
        ids = sorted(rng.sample(range(0, 3 * len(els) + 3), len(els)))
    for e, i in zip(els, ids):
        e["id"] = i
    dt.elements = [{"id": e["id"], "value": e["value"], "missing": e["missing"]} for e in els]
    return where, ids_kind


def dt_transforms(case, slot, x, stale, others):
    akey, okey = case["akey"], case["okey"]
    if slot == "hide":
        return {akey: {"elements": {x: {"hide": True}, stale: {"hide": True}}}}
    if slot == "rename":
        return {akey: {"elements": {x: {"name": "Renamed"}}}}
    if slot == "explicit":
        return {akey: {"order": {"type": "explicit", "element_ids": [stale, x] + others[:1]}}}
    if slot == "fixed-top":
        return {akey: {"order": {"type": "label", "direction": "descending", "fixed": {"top": [x]}}}}
    if slot == "fixed-bottom":
        return {akey: {"order": {"type": "label", "direction": "ascending", "fixed": {"bottom": [x]}}}}
    if slot == "explicit+fixed":
        # manual order in force; the fixed lists (and direction) of the sort it replaced left behind
        return {akey: {"order": {"type": "explicit", "element_ids": [stale, x] + others[:1],
                                 "direction": "descending", "fixed": {"top": others[:1] or [x], "bottom": [x]}}}}
    if slot == "sort+element_ids":
        # sort by label with a fixed list in force; the manual order it replaced left behind
        return {akey: {"order": {"type": "label", "direction": "descending", "fixed": {"top": [x]},
                                 "element_ids": others[:1] + [x]}}}
    if slot == "opposing":
        if not okey:
            return None
        return {okey: {"order": {"type": "opposing_element", "element_id": x,
                                 "measure": "col_percent" if okey == "rows_dimension" else "row_percent"}}}
    raise ValueError(slot)


def dt_absolute_check(slot, rank, other_rank, base_order):
    """What the display order / labels of the datetime dimension must be when element `rank`
    (offset among the valid elements) is referenced in `slot` - by whatever spelling."""
    if slot == "hide":
        return ["order", [r for r in base_order if r != rank]]
    if slot == "rename":
        return ["label", base_order.index(rank), "Renamed"]
    if slot in ("explicit", "explicit+fixed"):
        head = [rank] + ([other_rank] if other_rank is not None else [])
        return ["order", head + [r for r in base_order if r not in head]]
    if slot in ("fixed-top", "sort+element_ids"):
        return ["first", rank]
    if slot == "fixed-bottom":
        return ["last", rank]
    return None


def dt_absolute_fail(out, akey, check):
    """-> None | description.  `out` = impl_outputs reads."""
    if check is None:
        return None
    axis = "column" if akey == "columns_dimension" else "row"
    order = out.get("0.%s_order" % axis)
    labels = out.get("0.%s_labels" % axis)
    if order is None or order[0] != "ok" or labels is None or labels[0] != "ok":
        return {"what": "read failed", "order": order, "labels": labels}
    o, lab = order[1][:-1], labels[1][:-1]
    kind = check[0]
    if kind == "order" and o != check[1]:
        return {"what": "display order", "impl": o, "expected": check[1]}
    if kind == "first" and (not o or o[0] != check[1]):
        return {"what": "fixed top element is not first", "impl": o, "expected_first": check[1]}
    if kind == "last" and (not o or o[-1] != check[1]):
        return {"what": "fixed bottom element is not last", "impl": o, "expected_last": check[1]}
    if kind == "label" and (check[1] >= len(lab) or lab[check[1]] != check[2]):
        return {"what": "renamed label", "impl": lab, "expected_at": check[1], "expected": check[2]}
    return None


def run_datetime(rep, rng, n):
    stats = {"cases": 0, "translate_evals": 0, "relational": 0, "absolute": 0,
             "relational_on_element_after_missing": 0}
    cases, terms = [], []
    for k in range(n):
        layout = rng.choice(["dt_x_cat", "dt_x_cat", "cat_x_dt", "dt"])
        dt = gen.make_enum(rng, "d", "datetime", n_valid=rng.randint(1, 4))
        if rng.random() < 0.2:
            # yearly resolution: values are digit strings themselves
            for j, el in enumerate(dt.elements):
                if not isinstance(el["value"], dict):
                    el["value"] = str(2015 + j)
        where, ids_kind = layout_missing(rng, dt)
        cat = gen.make_cat(rng, "c", n_valid=rng.randint(1, 3), n_missing=0)
        variables, aliases = {"dt_x_cat": ([dt, cat], ["d", "c"]), "cat_x_dt": ([cat, dt], ["c", "d"]),
                              "dt": ([dt], ["d"])}[layout]
        sv = gen.Survey(variables, rng.randint(5, 12), rng)
        resp = gen.cube_response(sv, aliases)
        cube_dim = 1 if layout == "cat_x_dt" else 0
        els = resp["result"]["dimensions"][cube_dim]["type"]["elements"]
        bat = []
        for pos, el in enumerate(els):
            bat += [el["id"], str(el["id"]), pos, str(pos)]
            if not isinstance(el["value"], dict):
                bat.append(el["value"])
        bat += [len(els), str(len(els)), 99, "99", "zz", None, "", "-1", -1, "007", "2010-13"]
        case = {"k": k, "layout": layout, "response": resp, "cube_dim": cube_dim, "els": els,
                "akey": "columns_dimension" if layout == "cat_x_dt" else "rows_dimension",
                "okey": {"dt_x_cat": "columns_dimension", "cat_x_dt": "rows_dimension", "dt": None}[layout],
                "battery": bat, "values": "counts", "missing_layout": where, "ids_kind": ids_kind}
        cases.append(case)
        terms.append("r_lst r_tval (map (dt_translate %s) %s)" % (g_dtdim(els), U.g_idents(bat)))
    results, _secs = core.run_coq_cases(PID, DT_IMPORTS, terms, tag="dt") if terms else ([], 0)
    for case, toks in zip(cases, results):
        dec = U.Dec(toks)
        model = dec.list(dec.tval)
        dim = impl_dim(case)
        missing_ids = [el["id"] for el in case["els"] if isinstance(el["value"], dict)]
        by_value = {}
        for x, m in zip(case["battery"], model):
            got = impl_translate(dim, x)
            stats["translate_evals"] += 1
            m2 = ("ok", m[1]) if m[0] == "id" else ("ok", ("obj",))
            if got != m2:
                rep.violation("impl-vs-model", {"response": case["response"], "ident": x, "kind": "datetime",
                              "cube_dim": case["cube_dim"]},
                              {"what": "datetime translate", "ident": x, "impl": got, "model": m2},
                              {"what": "dt-translate"})
            if m[0] == "id":
                by_value.setdefault(json.dumps(m[1]), []).append(x)
        stats["cases"] += 1
        rep.count_case({"r": case["response"], "dt": True}, True)
        rep.dist("layout=" + case["layout"])
        rep.dist("dt-missing-element=" + case["missing_layout"])
        rep.dist("dt-ids=" + case["ids_kind"])
        # relational: position id (int / str) vs value, EVERY valid element x every slot
        valid = [el for el in case["els"] if not isinstance(el["value"], dict)]
        if not valid:
            continue
        stale = rng.choice([99, "zz", "2031-01"])
        base_out, _ = impl_outputs(case, {})
        axis = "column" if case["akey"] == "columns_dimension" else "row"
        base_order = base_out.get("0.%s_order" % axis)
        base_order = base_order[1][:-1] if base_order and base_order[0] == "ok" else None

        def rcase_of(tr, **kw):
            return dict({"response": case["response"], "transforms": tr, "kind": "datetime",
                         "layout": case["layout"], "akey": case["akey"], "okey": case["okey"],
                         "cube_dim": case["cube_dim"], "values": "counts"}, **kw)

        el0 = rng.choice(valid)
        for mid in missing_ids:
            # the position id of a missing ('No Data') element matches nothing: it must be ignored
            # (no raise, same output as without the reference)
            for sp in (mid, str(mid)):
                for tr, plain in (({case["akey"]: {"elements": {sp: {"hide": True}}}}, {}),
                                  ({case["akey"]: {"order": {"type": "explicit", "element_ids": [sp, el0["id"]]}}},
                                   {case["akey"]: {"order": {"type": "explicit", "element_ids": [el0["id"]]}}})):
                    out, _after = impl_outputs(case, tr)
                    pout, _ = impl_outputs(case, plain)
                    raised = {k2: v for k2, v in out.items() if v[0] == "exc"}
                    rep.cov["evaluations"] += 1
                    stats["missing_position"] = stats.get("missing_position", 0) + 1
                    if raised:
                        rep.violation("impl-raises", rcase_of(tr), {"raised": raised, "slot": "missing-position"},
                                      {"cause": "datetime"})
                    elif first_output_diff(out, pout) is not None:
                        rep.violation("spellings-differ", rcase_of(tr, transforms_2=plain, kind="relational"),
                                      {"what": "reference to the missing element's position is not ignored",
                                       "diff": first_output_diff(out, pout)}, {"what": "relational-datetime"})
        first_missing_pos = min([p for p, e in enumerate(case["els"]) if isinstance(e["value"], dict)] or [10 ** 6])
        for rank, el in enumerate(valid):
            pos = case["els"].index(el)
            after_missing = pos > first_missing_pos
            spellings = [("value", el["value"]), ("int", el["id"]), ("str", str(el["id"]))]
            others = [e["value"] for e in valid if e is not el]
            other_rank = valid.index([e for e in valid if e is not el][0]) if others else None
            for slot in DT_SLOTS:
                check = dt_absolute_check(slot, rank, other_rank, base_order) if base_order is not None else None
                outs = []
                for sname, x in spellings:
                    tr = dt_transforms(case, slot, x, stale, others)
                    if tr is None:
                        continue
                    out, after = impl_outputs(case, tr)
                    raised = {k2: v for k2, v in out.items() if v[0] == "exc"}
                    rep.cov["evaluations"] += 1
                    if raised:
                        rep.violation("impl-raises", rcase_of(tr), {"raised": raised, "slot": slot},
                                      {"cause": "datetime"})
                        continue
                    outs.append((sname, tr, out))
                    # absolute: the reference (whatever its spelling) acts on THIS element
                    bad = dt_absolute_fail(out, case["akey"], check)
                    stats["absolute"] += 1 if check is not None else 0
                    if bad is not None:
                        rep.violation("reference-acts-on-wrong-element",
                                      rcase_of(tr, kind="datetime-absolute", check=check),
                                      dict(bad, slot=slot, spelling=sname, reference=x, element_rank=rank,
                                           element_id=el["id"], after_missing_element=after_missing,
                                           missing_layout=case["missing_layout"]),
                                      {"what": "absolute-datetime"})
                for sname, tr, out in outs[1:]:
                    stats["relational"] += 1
                    rep.dist("dt-relational:slot=" + slot)
                    if after_missing:
                        stats["relational_on_element_after_missing"] += 1
                        rep.dist("dt-relational:element-after-missing:%s-vs-value" % sname)
                    diff = first_output_diff(outs[0][2], out)
                    if diff is not None:
                        rep.violation("spellings-differ", rcase_of(outs[0][1], transforms_2=tr, kind="relational"),
                                      {"read": diff[0], "base": diff[1], "variant": diff[2], "slot": slot,
                                       "spelling": sname, "element_id": el["id"], "value": el["value"],
                                       "after_missing_element": after_missing,
                                       "missing_layout": case["missing_layout"]},
                                      {"what": "relational-datetime"})
    return stats


# ------------------------------------------------------------------------------------
# replay
# ------------------------------------------------------------------------------------


def replayable(case, transforms, ident=None):
    out = {"response": case["response"], "transforms": transforms, "layout": case["layout"],
           "akey": case["akey"], "okey": case["okey"], "cube_dim": case["cube_dim"],
           "values": case["values"], "kind": "array", "adim": case["adim"]}
    if ident is not None or transforms is None:
        out["ident"] = ident
        out["kind"] = "translate"
    return out


def replay(path):
    d = json.load(open(path))
    v = d["violation"]
    case = v["case"]
    kind = case.get("kind")
    fails = []
    if kind == "relational":
        a, _ = impl_outputs(case, case["transforms"])
        b, _ = impl_outputs(case, case["transforms_2"])
        diff = first_output_diff(a, b)
        if diff is not None:
            fails.append(("spellings-differ", diff))
    elif kind == "datetime" and "ident" in case:
        # model-vs-implementation on one identifier of a datetime dimension
        els = case["response"]["result"]["dimensions"][case["cube_dim"]]["type"]["elements"]
        term = "r_lst r_tval (map (dt_translate %s) %s)" % (g_dtdim(els), U.g_idents([case["ident"]]))
        res, _ = core.run_coq_cases(PID, DT_IMPORTS, [term], tag="replay")
        dec = U.Dec(res[0])
        m = dec.list(dec.tval)[0]
        m2 = ("ok", m[1]) if m[0] == "id" else ("ok", ("obj",))
        got = impl_translate(impl.Cube(copy.deepcopy(case["response"])).dimensions[case["cube_dim"]]
                             .apply_transforms({}), case["ident"])
        if got != m2:
            fails.append(("datetime translate", case["ident"], got, m2))
    elif kind == "datetime-absolute":
        out, _ = impl_outputs(case, case["transforms"])
        raised = {k: x for k, x in out.items() if x[0] == "exc"}
        if raised:
            fails.append(("raises", raised))
        bad = dt_absolute_fail(out, case["akey"], case.get("check"))
        if bad is not None:
            fails.append(("reference-acts-on-wrong-element", bad))
    elif kind == "opposing-absolute":
        bad = opposing_absolute_fail(case, case["transforms"], case["opp_item"])
        if bad is not None and not bad.get("skipped"):
            fails.append(("opposing-absolute", bad))
    elif kind == "translate":
        dim = impl_dim(case)
        got = impl_translate(dim, case.get("ident"))
        exp = v["detail"].get("model", v["detail"].get("expected"))
        if exp is not None and core.jsonable(got) != core.jsonable(exp) and \
                core.jsonable(got) != ["ok", exp]:
            fails.append(("translate", got, exp))
        if got[0] == "exc":
            fails.append(("raises", got))
    else:
        out, after = impl_outputs(case, case["transforms"])
        raised = {k: x for k, x in out.items() if x[0] == "exc"}
        if raised:
            fails.append(("raises", raised))
        if v["kind"] == "impl-vs-model" and kind == "array":
            pay = U.Payloads()
            td = (case["transforms"] or {}).get(case["akey"])
            term = "let r := shim_xf %s %s in r_shim r" % (U.g_adim(case["adim"]), U.g_xf(td, pay))
            res, _ = core.run_coq_cases(PID, IMPORTS, [term], tag="replay")
            mt, mexc = U.Dec(res[0]).shim()
            used = impl_used_dict(case, case["transforms"])
            if used[0] == "ok" and mexc is None and U.canon_xf(used[1], pay) != U.model_xf_canon(mt):
                fails.append(("shim-dict", used[1], mt))
            if (used[0] == "ok") != (mexc is None):
                fails.append(("shim-exception", used, mexc))
            if not U.same_json(after, case["transforms"]):
                fails.append(("caller-dict-changed", after.get(case["akey"]), td))
            what = v["detail"].get("what")
            if what in ("element transform", "display order", "exception") and not fails:
                fails.append(("model-vs-impl detail (re-run the check)", what))
    for f in fails:
        print("REPLAY still fails:", json.dumps(core.jsonable(f))[:700])
    if not fails:
        print("REPLAY: no longer fails")
    return 1 if fails else 0


def _dimension_trusted_base():
    try:
        from harness.translate import x_dimension
        return x_dimension.TRUSTED_BASE
    except Exception:
        return "dimension translator harness/translate/x_dimension.py not importable"
