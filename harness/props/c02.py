# -*- coding: utf-8 -*-
"""C02 - Bases and margins count exactly the respondents eligible for the denominator.

Obligations: coq/Props/C02.v (Spec/Survey.v, Model/CubeCounts.v, Proofs/CubeCounts*.v).

Correspondence on random respondent-level surveys (harness/props/cube_util.py):
  (a) Model/CubeCounts.v evaluated in Coq on the JSON payload vs. the implementation:
      _Slice.{row,column,table}_{weighted,unweighted}_bases, rows_margin/rows_base,
      columns_margin/columns_base, table_margin/table_base (scalar / 1-D / 2-D fall-backs),
      table_base_range, table_margin_range, min_base_size_mask.{row,column,table}_mask;
      _Strand.weighted_bases/unweighted_bases/table_*_range/min_base_size_mask;
  (b) the respondent-level oracle (members of the row element eligible for the column element,
      etc., counted from the answers; per-item missingness for MR) vs. the same outputs;
  (c) subtotal rows/columns of the six base matrices of categorical dimensions vs. the
      respondent-level oracle of the merged category (sum-only subtotals; differences belong
      to C04).
"""
import json
import random

import numpy as np

from harness import core, gen, impl
from harness.props import cube_util as cu

PID = "C02"

PAIRS = [("row_weighted_bases", "w", "row_bases", ("in", "ok")),
         ("row_unweighted_bases", "u", "row_bases", ("in", "ok")),
         ("column_weighted_bases", "w", "column_bases", ("ok", "in")),
         ("column_unweighted_bases", "u", "column_bases", ("ok", "in")),
         ("table_weighted_bases", "w", "table_bases", ("ok", "ok")),
         ("table_unweighted_bases", "u", "table_bases", ("ok", "ok"))]


def has_valid_counts(case):
    m = case["response"]["result"]["measures"]
    return "valid_count_unweighted" in m or "valid_count_weighted" in m


def build(case):
    io = cu.run_impl(case, cu.SLICE_BASE_NAMES, cu.STRAND_BASE_NAMES, masks=True)
    terms = [t for t in cu.model_terms(case) if t[0] in ("slices", "strands")]
    if terms and terms[0][0] == "slices":
        terms.append(("public", "r_cube_public %s %s" % (
            cu.g_dims(case["_axes"]), cu.g_payload(case["response"]))))
    return io, terms


def dec_public(toks):
    d = core.Dec(toks)

    def pub():
        tag = d.Z()
        return {0: lambda: ("scalar", d.xq()), 1: lambda: ("vector", d.vec()),
                2: lambda: ("matrix", d.mat())}[tag]()

    def three():
        return {"rows": pub(), "columns": pub(), "table": pub()}

    def one():
        return {"w": d.opt(three), "u": d.opt(three)}

    out = d.list(one)
    assert d.done()
    return out


def cmp_pub(r, pv, what):
    """impl public value (guarded result) vs model pubval."""
    if r[0] != "ok":
        return {"what": what, "impl": r[1:]}
    kind, val = pv
    a = np.asarray(r[1], dtype=float)
    if kind == "scalar":
        if a.ndim != 0 or not core.close(float(a), val):
            return {"what": what, "impl": impl.tolist(a), "model": ("scalar", val)}
        return None
    if kind == "vector":
        if a.ndim != 1:
            return {"what": what, "impl_ndim": a.ndim, "model": "vector"}
        return cu.mat_mismatch(r[1], val, what)
    if a.ndim != 2:
        return {"what": what, "impl_ndim": a.ndim, "model": "matrix"}
    return cu.mat_mismatch(r[1], val, what)


def compare(case, io, terms, results):
    fails = []
    if "error" in io:
        return [{"what": "exception", "impl": io["error"][1:]}]
    parts = io["parts"]
    sv = case["_sv"]
    oracle = cu.Oracle(sv, case["_axes"])
    use_oracle = not has_valid_counts(case)
    size = case.get("mask_size", 0)
    for (kind, _t), toks in zip(terms, results):
        if kind == "slices":
            model = cu.dec_cube_slices(toks)
            if len(model) != len(parts):
                fails.append({"what": "n_partitions", "impl": len(parts), "model": len(model)})
                continue
            for k, (mp, ip) in enumerate(zip(model, parts)):
                for pub, key, mname, modes in PAIRS:
                    r = ip[pub]
                    if r[0] != "ok":
                        fails.append({"what": pub, "part": k, "impl": r[1:]})
                        continue
                    d = cu.mat_mismatch(r[1], mp[key][mname], pub)
                    if d:
                        fails.append(dict(d, part=k, oracle="model"))
                    if use_oracle:
                        exp = oracle.slice_cells(k, modes[0], modes[1], key == "w" and sv.weighted)
                        d = cu.mat_mismatch(r[1], exp, pub)
                        if d:
                            fails.append(dict(d, part=k, oracle="survey"))
                for pub, key in (("table_base_range", "u"), ("table_margin_range", "w")):
                    r = ip[pub]
                    if r[0] != "ok":
                        fails.append({"what": pub, "part": k, "impl": r[1:]})
                    elif not core.close_vec(list(r[1]), mp[key]["range"]):
                        fails.append({"what": pub, "part": k, "impl": r[1], "model": mp[key]["range"]})
                for mn in ("row_mask", "column_mask", "table_mask"):
                    r = ip[mn]
                    if r[0] != "ok":
                        fails.append({"what": mn, "part": k, "impl": r[1:]})
                    elif [list(map(bool, row)) for row in r[1]] != mp["u"][mn]:
                        fails.append({"what": mn, "part": k, "impl": r[1], "model": mp["u"][mn],
                                      "size": size})
        elif kind == "public":
            model = dec_public(toks)
            for k, (mp, ip) in enumerate(zip(model, parts)):
                for pub, key, which in (("rows_margin", "w", "rows"), ("rows_base", "u", "rows"),
                                        ("columns_margin", "w", "columns"),
                                        ("columns_base", "u", "columns"),
                                        ("table_margin", "w", "table"), ("table_base", "u", "table")):
                    d = cmp_pub(ip[pub], mp[key][which], pub)
                    if d:
                        fails.append(dict(d, part=k, oracle="model"))
        elif kind == "strands":
            model = cu.dec_cube_strands(toks)
            if len(model) != len(parts):
                fails.append({"what": "n_partitions", "impl": len(parts), "model": len(model)})
                continue
            ca0 = bool(case.get("ca_as_0th"))
            for k, (mp, ip) in enumerate(zip(model, parts)):
                for pub, key in (("weighted_bases", "w"), ("unweighted_bases", "u")):
                    r = ip[pub]
                    if r[0] != "ok":
                        fails.append({"what": pub, "part": k, "impl": r[1:]})
                        continue
                    d = cu.mat_mismatch(r[1], mp[key]["bases"], pub)
                    if d:
                        fails.append(dict(d, part=k, oracle="model"))
                    if use_oracle:
                        exp = oracle.strand_cells(k, "ok", key == "w" and sv.weighted, ca0=ca0)
                        d = cu.mat_mismatch(r[1], exp, pub)
                        if d:
                            fails.append(dict(d, part=k, oracle="survey"))
                for pub, key in (("table_base_range", "u"), ("table_margin_range", "w")):
                    r = ip[pub]
                    if r[0] != "ok":
                        fails.append({"what": pub, "part": k, "impl": r[1:]})
                    elif not core.close_vec(list(r[1]), mp[key]["range"]):
                        fails.append({"what": pub, "part": k, "impl": r[1], "model": mp[key]["range"]})
                r = ip["mask"]
                if r[0] != "ok":
                    fails.append({"what": "strand mask", "part": k, "impl": r[1:]})
                elif list(map(bool, r[1])) != mp["u"]["mask"]:
                    fails.append({"what": "strand mask", "part": k, "impl": r[1],
                                  "model": mp["u"]["mask"], "size": size})
    return fails


# ------------------------------------------------------------------------------------
# (c) subtotals of the bases vs the merged category
# ------------------------------------------------------------------------------------

def gen_subtotal_case(rng, k):
    kinds = [rng.choice(["cat", "cat", "mr"]), rng.choice(["cat", "cat", "mr"])]
    if "cat" not in kinds:
        kinds[rng.randrange(2)] = "cat"
    if rng.random() < 0.3:
        kinds = [rng.choice(["cat", "mr"])] + kinds
    vs = [cu.make_var(rng, "v%d" % n, kd) for n, kd in enumerate(kinds)]
    for v in vs[-2:]:
        if v.kind == "cat":
            v.view_insertions = gen.random_insertions(rng, v, max_n=2, differences=False,
                                                      stale=False)
    sv = gen.Survey(vs, rng.choice([3, 8, 15, 25]), rng)
    case = {"k": k, "shape_class": "subtotals", "survey": cu.survey_to_json(sv),
            "aliases": [v.alias for v in vs], "perm": None, "measures": ["count"], "numvar": None,
            "valid_counts": False, "unavailable": [], "mask_size": 0, "ca_as_0th": False,
            "subtotals": True}
    cu.finish_case(case)
    return case


def run_subtotal_case(case):
    """-> list of failures: compare subtotal rows / columns of the base matrices."""
    sv = case["_sv"]
    oracle = cu.Oracle(sv, case["_axes"])
    res = impl.guarded(lambda: impl.cube(case["response"]).partitions)
    if res[0] != "ok":
        return [{"what": "exception", "impl": res[1:]}], 0
    fails = []
    n_sub = 0
    ap = oracle.apparent
    rows_ax, cols_ax = ap[-2], ap[-1]
    table = ap[:-2]
    for k, p in enumerate(res[1]):
        info = impl.guarded(lambda: (impl.dims_info(p),
                                     [(list(map(int, s.addend_idxs)), list(map(int, s.subtrahend_idxs)))
                                      for s in p._dimensions[0].subtotals],
                                     [(list(map(int, s.addend_idxs)), list(map(int, s.subtrahend_idxs)))
                                      for s in p._dimensions[1].subtotals],
                                     list(p.row_order()), list(p.column_order())))
        if info[0] != "ok":
            fails.append({"what": "subtotal-introspection", "impl": info[1:], "no_impl": True})
            continue
        (nr, nrs, nc, ncs), rsubs, csubs, ro, co = info[1]
        n_sub += nrs + ncs
        if nrs + ncs == 0:
            continue
        for pub, key, mname, modes in PAIRS:
            r = impl.get(p, pub)
            if r[0] != "ok":
                fails.append({"what": pub, "part": k, "impl": r[1:]})
                continue
            blk = impl.blocks2d(r[1], ro, co, nr, nc, nrs, ncs)
            weighted = (key == "w") and sv.weighted

            def cell(rsel, csel):
                # rsel/csel: ('el', i) or ('sub', addend idxs); modes per direction
                tot = 0
                rlist = [rsel[1]] if rsel[0] == "el" else rsel[1]
                clist = [csel[1]] if csel[0] == "el" else csel[1]
                # a subtotal is the union of its (disjoint) addend categories; eligibility
                # ('ok') does not depend on the element for a categorical dimension
                rl = rlist if modes[0] == "in" else rlist[:1]
                cl = clist if modes[1] == "in" else clist[:1]
                for i in rl:
                    for j in cl:
                        assign = [(t, "in", k) for t in table] + [(rows_ax, modes[0], i),
                                                                    (cols_ax, modes[1], j)]
                        tot += oracle.w(assign, weighted)
                return tot

            # subtotal rows x base columns
            for si, (add, sub) in enumerate(rsubs):
                if sub or not add:
                    continue
                for j in range(nc):
                    exp = cell(("sub", add), ("el", j))
                    if not core.close(blk[1][0][si][j], exp):
                        fails.append({"what": pub + ":subtotal-row", "part": k, "sub": si, "col": j,
                                      "impl": blk[1][0][si][j], "expected": exp, "oracle": "survey"})
            for sj, (add, sub) in enumerate(csubs):
                if sub or not add:
                    continue
                for i in range(nr):
                    exp = cell(("el", i), ("sub", add))
                    if not core.close(blk[0][1][i][sj], exp):
                        fails.append({"what": pub + ":subtotal-column", "part": k, "sub": sj, "row": i,
                                      "impl": blk[0][1][i][sj], "expected": exp, "oracle": "survey"})
            for si, (radd, rsub) in enumerate(rsubs):
                for sj, (cadd, csub) in enumerate(csubs):
                    if rsub or csub or not radd or not cadd:
                        continue
                    exp = cell(("sub", radd), ("sub", cadd))
                    if not core.close(blk[1][1][si][sj], exp):
                        fails.append({"what": pub + ":subtotal-intersection", "part": k,
                                      "impl": blk[1][1][si][sj], "expected": exp, "oracle": "survey"})
    return fails, n_sub


def describe(rep, case):
    rep.dist("class=" + cu.class_pair(case))
    sv = case["_sv"]
    rep.dist("weighted" if sv.weighted else "unweighted")
    if any(any(s == cu.MIS for s in r["ans"][a]) for r in sv.resp for a in case["aliases"]
           if sv.var(a).kind == "mr"):
        rep.dist("per_item_missingness")
    if case["perm"] is not None:
        rep.dist("permuted_axes")
    if has_valid_counts(case):
        rep.dist("valid_counts")
    rep.dist("mask_size=%d" % case.get("mask_size", 0))


def run(tier, seed):
    rep = core.Report(PID, tier, seed)
    ob = core.obligations_gate(rep, PID)
    n_cases = 260 if tier == "quick" else 4000
    n_sub_cases = 120 if tier == "quick" else 1500
    rng = random.Random(seed + 2)
    cases, ios, allterms, flat = [], [], [], []
    for k in range(n_cases):
        case = cu.gen_case(rng, k, numeric=(rng.random() < 0.15))
        io, terms = build(case)
        cases.append(case)
        ios.append(io)
        allterms.append(terms)
        flat.extend(t for (_k, t) in terms)
    results, coq_s = core.run_coq_cases(PID, cu.IMPORTS, flat, shard=60) if flat else ([], 0.0)
    pos = 0
    for case, io, terms in zip(cases, ios, allterms):
        res = results[pos:pos + len(terms)]
        pos += len(terms)
        nt = len(case["_sv"].resp) > 0
        rep.count_case(cu.replayable(case), nt)
        describe(rep, case)
        if nt:
            rep.sample({"class": cu.class_pair(case), "aliases": case["aliases"],
                        "perm": case["perm"], "n_resp": len(case["_sv"].resp)})
        for f in compare(case, io, terms, res):
            ctx = {"what": f.get("what"), "class": cu.class_pair(case)}
            rep.violation("impl-vs-model" if f.get("oracle") != "survey" else "impl-vs-survey",
                          cu.replayable(case), f, ctx)
    n_subtotals = 0
    for k in range(n_sub_cases):
        case = gen_subtotal_case(rng, k)
        fails, ns = run_subtotal_case(case)
        n_subtotals += ns
        rep.count_case(cu.replayable(case), ns > 0)
        rep.dist("subtotal-case:" + cu.class_pair(case))
        for f in fails:
            ctx = {"what": f.get("what"), "class": cu.class_pair(case)}
            rep.violation("impl-vs-survey", cu.replayable(case), f, ctx,
                          failing_input=not f.get("no_impl"))
    rep.cov["rule"] = (
        "cases from random.Random(seed+2): same survey generator as C01 (all dimension kinds, class "
        "pairs, 1-D/2-D/3-D, weighted/unweighted, per-item MR missingness, missing categories "
        "anywhere), mask sizes {0,1,2,3,5,10}; plus a stream of CAT/MR slices with sum-only subtotal "
        "insertions on the categorical dimensions. non-trivial = at least one respondent (resp. at "
        "least one subtotal); distinct by content hash")
    rep.cov["coq_eval_seconds"] = round(coq_s, 2)
    rep.cov["model_terms_evaluated"] = len(flat)
    rep.cov["subtotal_vectors_checked"] = n_subtotals
    rep.assumptions = [
        "survey-level theorems cover categorical (incl. enum) and MR dimensions; array class pairs by "
        "model-vs-implementation and the survey oracle only",
        "subtotal blocks of the base measures are compared with the survey oracle, not modelled in Coq",
        "subtotal addend positions are read from the library's private Dimension.subtotals",
        "float64 vs exact rationals: relative tolerance 1e-9",
    ]
    return rep.finish("proof", ob, trusted_base=core.TRUSTED_BASE_COMMON + [
        "Model/CubeCounts.v is hand-written; tied to matrix/measure.py margins, cubepart.py fall-backs and "
        "min_base_size_mask.py by this correspondence run only; its bases / margins / scalar table base of the "
        "nine class pairs (through the factory dict, inheritance flattened) and the stripe bases are ALSO tied "
        "to the text of matrix/cubemeasure.py and stripe/cubemeasure.py by the C02_gen_* obligations "
        "(Proofs/GenAgreeBases.v)",
        core.TRUSTED_BASE_TRANSLATOR])


def replay(path):
    d = json.load(open(path))
    if d["violation"].get("kind") in core.OBLIGATION_KINDS:  # a broken obligation, no input to re-run
        return core.replay_obligations(PID, d)
    case = d["violation"]["case"]
    cu.finish_case(case)
    if case.get("subtotals"):
        fails, _ = run_subtotal_case(case)
    else:
        io, terms = build(case)
        results, _ = core.run_coq_cases(PID, cu.IMPORTS, [t for (_k, t) in terms], tag="replay")
        fails = compare(case, io, terms, results)
    for f in fails:
        print("REPLAY still fails:", json.dumps(core.jsonable(f))[:600])
    if not fails:
        print("REPLAY: no longer fails")
    return 1 if fails else 0
