# -*- coding: utf-8 -*-
"""C02 - Bases and margins count exactly the respondents eligible for the denominator.

Obligations: coq/Props/C02.v (Spec/Survey.v, Model/CubeCounts.v, Proofs/CubeCounts*.v).

Correspondence on random respondent-level surveys (harness/props/cube_util.py):
  (a) Model/CubeCounts.v evaluated in Coq on the JSON payload vs. the implementation:
      _Slice.{row,column,table}_{weighted,unweighted}_bases, rows_margin/rows_base,
      columns_margin/columns_base, table_margin/table_base (scalar / 1-D / 2-D fall-backs),
      table_base_range, table_margin_range, min_base_size_mask.{row,column,table}_mask;
      _Strand.weighted_bases/unweighted_bases/table_*_range/min_base_size_mask;
  (b) the respondent-level oracle (members of the row element eligible for the column element,
      etc., counted from the answers; per-item missingness for MR) vs. the same outputs;
  (c) subtotal rows/columns of the six base matrices of categorical dimensions vs. the
      respondent-level oracle of the merged category (sum-only subtotals; differences belong
      to C04).
  (d) THRESHOLD SWEEP of the minimum-base masks (Model/MinBaseMask.v): for every case of (a) and
      for a stream of strands / slices re-weighted so that the weighted N moves away from the
      unweighted N (zero-heavy, fractional, boosted, mixed weights) the cube is rebuilt with
      mask_size just below, exactly at and just above EVERY distinct unweighted and weighted
      base that occurs (all three directions; strand bases) and _Strand.min_base_size_mask /
      MinBaseSizeMask.{row,column,table}_mask are compared with the model and with
      `unweighted base < threshold` computed from the respondents.
  (e) BASE BLOCKS (Model/BaseBlocks.v + row_base_blocks / col_base_blocks / table_base_blocks of
      Model/Proportions.v, the definitions the C02_gen_<Measure> obligations tie to the text of
      matrix/measure.py): for a stream of CAT / MR slices and CAT strands with subtotal insertions
      - sums AND differences - the model's subtotal columns, subtotal rows and intersections of the
      six base matrices, computed in Coq from the BASE block the implementation reports and the
      (addend, subtrahend) offsets of its subtotals, are compared cell by cell with the
      implementation's blocks (NaN where a difference crosses the additive direction), together
      with the subtotal part of rows_margin / rows_base / columns_margin / columns_base when these
      are 1-D and the subtotal values of the strand's weighted / unweighted bases.
  (f) READ-ORDER leg (common_cases.late_reads; every second case of (a) and of (e), up to three
      partitions): the bases, margins, table bases and the two RANGES read after every other public
      property of a second partition (read in a shuffled order) are the ones of a fresh partition on
      which the per-cell bases were read first (a range that sorts the cached table bases in place is
      visible only when it is read before them).
"""
import json
import math
import random
from fractions import Fraction

import numpy as np

from harness import core, gen, impl
from harness.props import cube_util as cu

PID = "C02"

PAIRS = [("row_weighted_bases", "w", "row_bases", ("in", "ok")),
         ("row_unweighted_bases", "u", "row_bases", ("in", "ok")),
         ("column_weighted_bases", "w", "column_bases", ("ok", "in")),
         ("column_unweighted_bases", "u", "column_bases", ("ok", "in")),
         ("table_weighted_bases", "w", "table_bases", ("ok", "ok")),
         ("table_unweighted_bases", "u", "table_bases", ("ok", "ok"))]


def has_valid_counts(case):
    m = case["response"]["result"]["measures"]
    return "valid_count_unweighted" in m or "valid_count_weighted" in m


def build(case):
    io = cu.run_impl(case, cu.SLICE_BASE_NAMES, cu.STRAND_BASE_NAMES, masks=True)
    terms = [t for t in cu.model_terms(case) if t[0] in ("slices", "strands")]
    if terms and terms[0][0] == "slices":
        terms.append(("public", "r_cube_public %s %s" % (
            cu.g_dims(case["_axes"]), cu.g_payload(case["response"]))))
    return io, terms


def dec_public(toks):
    d = core.Dec(toks)

    def pub():
        tag = d.Z()
        return {0: lambda: ("scalar", d.xq()), 1: lambda: ("vector", d.vec()),
                2: lambda: ("matrix", d.mat())}[tag]()

    def three():
        return {"rows": pub(), "columns": pub(), "table": pub()}

    def one():
        return {"w": d.opt(three), "u": d.opt(three)}

    out = d.list(one)
    assert d.done()
    return out


def cmp_pub(r, pv, what):
    """impl public value (guarded result) vs model pubval."""
    if r[0] != "ok":
        return {"what": what, "impl": r[1:]}
    kind, val = pv
    a = np.asarray(r[1], dtype=float)
    if kind == "scalar":
        if a.ndim != 0 or not core.close(float(a), val):
            return {"what": what, "impl": impl.tolist(a), "model": ("scalar", val)}
        return None
    if kind == "vector":
        if a.ndim != 1:
            return {"what": what, "impl_ndim": a.ndim, "model": "vector"}
        return cu.mat_mismatch(r[1], val, what)
    if a.ndim != 2:
        return {"what": what, "impl_ndim": a.ndim, "model": "matrix"}
    return cu.mat_mismatch(r[1], val, what)


def compare(case, io, terms, results):
    fails = []
    if "error" in io:
        return [{"what": "exception", "impl": io["error"][1:]}]
    parts = io["parts"]
    sv = case["_sv"]
    oracle = cu.Oracle(sv, case["_axes"])
    use_oracle = not has_valid_counts(case)
    size = case.get("mask_size", 0)
    for (kind, _t), toks in zip(terms, results):
        if kind == "slices":
            model = cu.dec_cube_slices(toks)
            if len(model) != len(parts):
                fails.append({"what": "n_partitions", "impl": len(parts), "model": len(model)})
                continue
            for k, (mp, ip) in enumerate(zip(model, parts)):
                for pub, key, mname, modes in PAIRS:
                    r = ip[pub]
                    if r[0] != "ok":
                        fails.append({"what": pub, "part": k, "impl": r[1:]})
                        continue
                    d = cu.mat_mismatch(r[1], mp[key][mname], pub)
                    if d:
                        fails.append(dict(d, part=k, oracle="model"))
                    if use_oracle:
                        exp = oracle.slice_cells(k, modes[0], modes[1], key == "w" and sv.weighted)
                        d = cu.mat_mismatch(r[1], exp, pub)
                        if d:
                            fails.append(dict(d, part=k, oracle="survey"))
                for pub, key in (("table_base_range", "u"), ("table_margin_range", "w")):
                    r = ip[pub]
                    if r[0] != "ok":
                        fails.append({"what": pub, "part": k, "impl": r[1:]})
                    elif not core.close_vec(list(r[1]), mp[key]["range"]):
                        fails.append({"what": pub, "part": k, "impl": r[1], "model": mp[key]["range"]})
                for mn in ("row_mask", "column_mask", "table_mask"):
                    r = ip[mn]
                    if r[0] != "ok":
                        fails.append({"what": mn, "part": k, "impl": r[1:]})
                    elif [list(map(bool, row)) for row in r[1]] != mp["u"][mn]:
                        fails.append({"what": mn, "part": k, "impl": r[1], "model": mp["u"][mn],
                                      "size": size})
        elif kind == "public":
            model = dec_public(toks)
            for k, (mp, ip) in enumerate(zip(model, parts)):
                for pub, key, which in (("rows_margin", "w", "rows"), ("rows_base", "u", "rows"),
                                        ("columns_margin", "w", "columns"),
                                        ("columns_base", "u", "columns"),
                                        ("table_margin", "w", "table"), ("table_base", "u", "table")):
                    d = cmp_pub(ip[pub], mp[key][which], pub)
                    if d:
                        fails.append(dict(d, part=k, oracle="model"))
        elif kind == "strands":
            model = cu.dec_cube_strands(toks)
            if len(model) != len(parts):
                fails.append({"what": "n_partitions", "impl": len(parts), "model": len(model)})
                continue
            ca0 = bool(case.get("ca_as_0th"))
            for k, (mp, ip) in enumerate(zip(model, parts)):
                for pub, key in (("weighted_bases", "w"), ("unweighted_bases", "u")):
                    r = ip[pub]
                    if r[0] != "ok":
                        fails.append({"what": pub, "part": k, "impl": r[1:]})
                        continue
                    d = cu.mat_mismatch(r[1], mp[key]["bases"], pub)
                    if d:
                        fails.append(dict(d, part=k, oracle="model"))
                    if use_oracle:
                        exp = oracle.strand_cells(k, "ok", key == "w" and sv.weighted, ca0=ca0)
                        d = cu.mat_mismatch(r[1], exp, pub)
                        if d:
                            fails.append(dict(d, part=k, oracle="survey"))
                for pub, key in (("table_base_range", "u"), ("table_margin_range", "w")):
                    r = ip[pub]
                    if r[0] != "ok":
                        fails.append({"what": pub, "part": k, "impl": r[1:]})
                    elif not core.close_vec(list(r[1]), mp[key]["range"]):
                        fails.append({"what": pub, "part": k, "impl": r[1], "model": mp[key]["range"]})
                r = ip["mask"]
                if r[0] != "ok":
                    fails.append({"what": "strand mask", "part": k, "impl": r[1:]})
                elif list(map(bool, r[1])) != mp["u"]["mask"]:
                    fails.append({"what": "strand mask", "part": k, "impl": r[1],
                                  "model": mp["u"]["mask"], "size": size})
    return fails


# ------------------------------------------------------------------------------------
# (c) subtotals of the bases vs the merged category
# ------------------------------------------------------------------------------------

def gen_subtotal_case(rng, k):
    kinds = [rng.choice(["cat", "cat", "mr"]), rng.choice(["cat", "cat", "mr"])]
    if "cat" not in kinds:
        kinds[rng.randrange(2)] = "cat"
    if rng.random() < 0.3:
        kinds = [rng.choice(["cat", "mr"])] + kinds
    vs = [cu.make_var(rng, "v%d" % n, kd) for n, kd in enumerate(kinds)]
    for v in vs[-2:]:
        if v.kind == "cat":
            v.view_insertions = gen.random_insertions(rng, v, max_n=2, differences=False,
                                                      stale=False)
            if k % 3 == 0:
                # an addend id named twice (two overlapping boxes concatenated): still one category
                for d in v.view_insertions:
                    lst = d.get("args") if "args" in d else d.get("kwargs", {}).get("positive")
                    if lst:
                        lst.append(lst[0])
                        if "args" in d and "kwargs" in d and d["kwargs"].get("positive") is not None \
                                and d["kwargs"]["positive"] is not lst:
                            d["kwargs"]["positive"].append(d["kwargs"]["positive"][0])
    sv = gen.Survey(vs, rng.choice([3, 8, 15, 25]), rng)
    case = {"k": k, "shape_class": "subtotals", "survey": cu.survey_to_json(sv),
            "aliases": [v.alias for v in vs], "perm": None, "measures": ["count"], "numvar": None,
            "valid_counts": False, "unavailable": [], "mask_size": 0, "ca_as_0th": False,
            "subtotals": True}
    cu.finish_case(case)
    return case


def run_subtotal_case(case):
    """-> list of failures: compare subtotal rows / columns of the base matrices."""
    sv = case["_sv"]
    oracle = cu.Oracle(sv, case["_axes"])
    res = impl.guarded(lambda: impl.cube(case["response"]).partitions)
    if res[0] != "ok":
        return [{"what": "exception", "impl": res[1:]}], 0
    fails = []
    n_sub = 0
    ap = oracle.apparent
    rows_ax, cols_ax = ap[-2], ap[-1]
    table = ap[:-2]
    for k, p in enumerate(res[1]):
        info = impl.guarded(lambda: (impl.dims_info(p),
                                     [(list(map(int, s.addend_idxs)), list(map(int, s.subtrahend_idxs)))
                                      for s in p._dimensions[0].subtotals],
                                     [(list(map(int, s.addend_idxs)), list(map(int, s.subtrahend_idxs)))
                                      for s in p._dimensions[1].subtotals],
                                     list(p.row_order()), list(p.column_order())))
        if info[0] != "ok":
            fails.append({"what": "subtotal-introspection", "impl": info[1:], "no_impl": True})
            continue
        (nr, nrs, nc, ncs), rsubs, csubs, ro, co = info[1]
        # a subtotal is the UNION of its addend categories: a category named twice in the insertion counts
        # once (seeded change C02-8: the index resolution yielded one offset per listed id, so a repeated
        # id was added twice) - the oracle therefore works on the SET of positions the library resolved
        rsubs = [(sorted(set(a)), sorted(set(b))) for a, b in rsubs]
        csubs = [(sorted(set(a)), sorted(set(b))) for a, b in csubs]
        n_sub += nrs + ncs
        if nrs + ncs == 0:
            continue
        for pub, key, mname, modes in PAIRS:
            r = impl.get(p, pub)
            if r[0] != "ok":
                fails.append({"what": pub, "part": k, "impl": r[1:]})
                continue
            blk = impl.blocks2d(r[1], ro, co, nr, nc, nrs, ncs)
            weighted = (key == "w") and sv.weighted

            def cell(rsel, csel):
                # rsel/csel: ('el', i) or ('sub', addend idxs); modes per direction
                tot = 0
                rlist = [rsel[1]] if rsel[0] == "el" else rsel[1]
                clist = [csel[1]] if csel[0] == "el" else csel[1]
                # a subtotal is the union of its (disjoint) addend categories; eligibility
                # ('ok') does not depend on the element for a categorical dimension
                rl = rlist if modes[0] == "in" else rlist[:1]
                cl = clist if modes[1] == "in" else clist[:1]
                for i in rl:
                    for j in cl:
                        assign = [(t, "in", k) for t in table] + [(rows_ax, modes[0], i),
                                                                    (cols_ax, modes[1], j)]
                        tot += oracle.w(assign, weighted)
                return tot

            # subtotal rows x base columns
            for si, (add, sub) in enumerate(rsubs):
                if sub or not add:
                    continue
                for j in range(nc):
                    exp = cell(("sub", add), ("el", j))
                    if not core.close(blk[1][0][si][j], exp):
                        fails.append({"what": pub + ":subtotal-row", "part": k, "sub": si, "col": j,
                                      "impl": blk[1][0][si][j], "expected": exp, "oracle": "survey"})
            for sj, (add, sub) in enumerate(csubs):
                if sub or not add:
                    continue
                for i in range(nr):
                    exp = cell(("el", i), ("sub", add))
                    if not core.close(blk[0][1][i][sj], exp):
                        fails.append({"what": pub + ":subtotal-column", "part": k, "sub": sj, "row": i,
                                      "impl": blk[0][1][i][sj], "expected": exp, "oracle": "survey"})
            for si, (radd, rsub) in enumerate(rsubs):
                for sj, (cadd, csub) in enumerate(csubs):
                    if rsub or csub or not radd or not cadd:
                        continue
                    exp = cell(("sub", radd), ("sub", cadd))
                    if not core.close(blk[1][1][si][sj], exp):
                        fails.append({"what": pub + ":subtotal-intersection", "part": k,
                                      "impl": blk[1][1][si][sj], "expected": exp, "oracle": "survey"})
    return fails, n_sub


# ------------------------------------------------------------------------------------
# (e) the blocks of the base measures: model (Model/BaseBlocks.v) vs implementation
# ------------------------------------------------------------------------------------

BLOCK_IMPORTS = """From Coq Require Import QArith ZArith List Bool.
From CC Require Import Base.XQ Base.Render Base.ListX Model.Subtotals Model.Proportions Model.BaseBlocks.
Import ListNotations."""
BLOCK_MEASURES = {"w": ("row_weighted_bases", "column_weighted_bases", "table_weighted_bases",
                        "rows_margin", "columns_margin"),
                  "u": ("row_unweighted_bases", "column_unweighted_bases", "table_unweighted_bases",
                        "rows_base", "columns_base")}


def gen_block_case(rng, k):
    """CAT / MR slices (2-D, 3-D) and CAT strands whose categorical dimensions carry subtotal
    insertions, differences included."""
    r = rng.random()
    if r < 0.15:
        kinds = ["cat"]
    else:
        kinds = [rng.choice(["cat", "cat", "cat", "mr"]), rng.choice(["cat", "cat", "cat", "mr"])]
        if "cat" not in kinds:
            kinds[rng.randrange(2)] = "cat"
        if r > 0.8:
            kinds = [rng.choice(["cat", "mr"])] + kinds
    vs = [cu.make_var(rng, "v%d" % n, kd) for n, kd in enumerate(kinds)]
    for v in vs[-2:]:
        if v.kind == "cat":
            v.view_insertions = gen.random_insertions(rng, v, max_n=3, differences=True, stale=False)
    sv = gen.Survey(vs, rng.choice([3, 8, 15, 25]), rng)
    case = {"k": k, "shape_class": "base-blocks", "survey": cu.survey_to_json(sv),
            "aliases": [v.alias for v in vs], "perm": None, "measures": ["count"], "numvar": None,
            "valid_counts": False, "unavailable": [], "mask_size": 0, "ca_as_0th": False,
            "base_blocks": True}
    cu.finish_case(case)
    return case


def g_subpairs(ss):
    return core.g_list(["(%s, %s)" % (core.g_list([core.g_nat(i) for i in a]),
                                       core.g_list([core.g_nat(i) for i in b])) for a, b in ss])


def block_jobs(case):
    """-> (failures, jobs); a job = (term, expectation dict) for one partition and one weighting."""
    res = impl.guarded(lambda: impl.cube(case["response"]).partitions)
    if res[0] != "ok":
        return [{"what": "exception", "impl": res[1:]}], []
    fails, jobs = [], []
    for k, p in enumerate(res[1]):
        tn = type(p).__name__
        if tn == "_Strand":
            info = impl.guarded(lambda: (impl.dims_info(p),
                                         [(list(map(int, s.addend_idxs)), list(map(int, s.subtrahend_idxs)))
                                          for s in p._rows_dimension.subtotals],
                                         list(p.row_order())))
            if info[0] != "ok":
                fails.append({"what": "subtotal-introspection", "impl": info[1:], "no_impl": True})
                continue
            (n, ns), subs, ro = info[1]
            if ns == 0 or n == 0:
                continue
            for key, pub in (("w", "weighted_bases"), ("u", "unweighted_bases")):
                r = impl.get(p, pub)
                if r[0] != "ok":
                    fails.append({"what": pub, "part": k, "impl": r[1:]})
                    continue
                b = impl.guarded(lambda: impl.blocks1d(r[1], ro, n, ns))
                if b[0] != "ok":
                    fails.append({"what": pub + ":blocks", "part": k, "impl": b[1:], "no_impl": True})
                    continue
                jobs.append(("r_strand_base_subtotals %s %s" % (core.g_vec(b[1][0]), g_subpairs(subs)),
                             {"kind": "strand", "part": k, "what": pub, "subs": subs, "impl": b[1][1]}))
            continue
        if tn != "_Slice":
            continue
        info = impl.guarded(lambda: (impl.dims_info(p),
                                     [(list(map(int, s.addend_idxs)), list(map(int, s.subtrahend_idxs)))
                                      for s in p._dimensions[0].subtotals],
                                     [(list(map(int, s.addend_idxs)), list(map(int, s.subtrahend_idxs)))
                                      for s in p._dimensions[1].subtotals],
                                     list(p.row_order()), list(p.column_order())))
        if info[0] != "ok":
            fails.append({"what": "subtotal-introspection", "impl": info[1:], "no_impl": True})
            continue
        (nr, nrs, nc, ncs), rsubs, csubs, ro, co = info[1]
        if nrs + ncs == 0 or nr == 0 or nc == 0:
            continue
        for key, names in BLOCK_MEASURES.items():
            blks, bad = [], False
            for pub in names[:3]:
                r = impl.get(p, pub)
                if r[0] != "ok":
                    fails.append({"what": pub, "part": k, "impl": r[1:]})
                    bad = True
                    break
                b = impl.guarded(lambda: impl.blocks2d(r[1], ro, co, nr, nc, nrs, ncs))
                if b[0] != "ok":
                    fails.append({"what": pub + ":blocks", "part": k, "impl": b[1:], "no_impl": True})
                    bad = True
                    break
                blks.append(b[1])
            if bad:
                continue
            margins = []
            for pub, order, n, ns in ((names[3], ro, nr, nrs), (names[4], co, nc, ncs)):
                r = impl.get(p, pub)
                if r[0] != "ok":
                    fails.append({"what": pub, "part": k, "impl": r[1:]})
                    margins.append(None)
                    continue
                a = np.asarray(r[1], dtype=float)
                if a.ndim != 1:
                    margins.append(None)       # 2-D fall-back: the blocks above cover it
                    continue
                b = impl.guarded(lambda: impl.blocks1d(a, order, n, ns))
                margins.append(b[1][1] if b[0] == "ok" else None)
            term = "r_base_blocks %s %s %s %s %s %s %s" % (
                core.g_nat(nr), core.g_nat(nc), g_subpairs(rsubs), g_subpairs(csubs),
                core.g_mat(blks[0][0][0]), core.g_mat(blks[1][0][0]), core.g_mat(blks[2][0][0]))
            jobs.append((term, {"kind": "slice", "part": k, "names": names, "blocks": blks,
                                "margins": margins, "rsubs": rsubs, "csubs": csubs}))
    return fails, jobs


def compare_blocks(toks, exp):
    d = core.Dec(toks)
    fails = []
    if exp["kind"] == "strand":
        model = d.vec()
        assert d.done()
        if not core.close_vec(exp["impl"], model):
            fails.append({"what": exp["what"] + ":subtotal-values", "part": exp["part"], "impl": exp["impl"],
                          "model": model, "subtotals": exp["subs"], "oracle": "model"})
        return fails
    for n, pub in enumerate(exp["names"][:3]):
        mcols, mrows, minter = d.mat(), d.mat(), d.mat()
        blk = exp["blocks"][n]
        for what, got, model in (("subtotal-columns", blk[0][1], mcols), ("subtotal-rows", blk[1][0], mrows),
                                 ("intersections", blk[1][1], minter)):
            if not core.close_mat(got, model):
                # an (nr, 0) / (0, nc) block decodes as rows of nothing / no rows: compare sizes loosely
                if sum(len(r) for r in got) == 0 and sum(len(r) for r in model) == 0:
                    continue
                fails.append({"what": "%s:block:%s" % (pub, what), "part": exp["part"], "impl": got,
                              "model": model, "row_subtotals": exp["rsubs"], "column_subtotals": exp["csubs"],
                              "oracle": "model"})
    for pub, got in zip(exp["names"][3:], exp["margins"]):
        model = d.vec()
        if got is not None and not core.close_vec(got, model):
            fails.append({"what": pub + ":subtotal-values", "part": exp["part"], "impl": got, "model": model,
                          "row_subtotals": exp["rsubs"], "column_subtotals": exp["csubs"], "oracle": "model"})
    assert d.done()
    return fails


def run_block_cases(cases, tag="blocks"):
    """-> [(case, failures)], number of model blocks compared, seconds in Coq"""
    all_jobs, out = [], []
    for case in cases:
        fails, jobs = block_jobs(case)
        out.append((case, fails))
        all_jobs.append(jobs)
    flat = [t for jobs in all_jobs for (t, _e) in jobs]
    results, coq_s = core.run_coq_cases(PID, BLOCK_IMPORTS, flat, shard=60, tag=tag) if flat else ([], 0.0)
    pos = 0
    for (case, fails), jobs in zip(out, all_jobs):
        for (_t, exp), toks in zip(jobs, results[pos:pos + len(jobs)]):
            fails.extend(compare_blocks(toks, exp))
        pos += len(jobs)
    return out, len(flat), coq_s


# ------------------------------------------------------------------------------------
# (f) read order: a base read after everything else is the base read first
# ------------------------------------------------------------------------------------

LATE_SLICE = ["row_weighted_bases", "row_unweighted_bases", "column_weighted_bases", "column_unweighted_bases",
              "table_weighted_bases", "table_unweighted_bases", "rows_margin", "rows_base", "columns_margin",
              "columns_base", "table_margin", "table_base", "table_base_range", "table_margin_range"]
LATE_STRAND = ["weighted_bases", "unweighted_bases", "table_base_range", "table_margin_range"]


def late_read_fails(case, max_parts=3):
    """-> (failures, partitions read)"""
    import copy
    from harness.props import common_cases as cc
    if case.get("ca_as_0th"):
        return [], 0
    res = impl.guarded(lambda: impl.cube(case["response"]).partitions)
    if res[0] != "ok":
        return [], 0
    fails, n = [], 0
    for pidx, p in enumerate(res[1][:max_parts]):
        tn = type(p).__name__
        names = LATE_SLICE if tn == "_Slice" else LATE_STRAND if tn == "_Strand" else None
        if names is None:
            continue
        fresh = {}
        for nm in names:                      # per-cell bases first, the ranges last; frozen at once
            r = impl.get(p, nm)
            fresh[nm] = (r[0], copy.deepcopy(r[1])) if r[0] == "ok" else r
        population, late = cc.late_reads({"response": case["response"], "transforms": None,
                                          "k": 1000 * int(case.get("k", 0)) + pidx},
                                         names, fresh, transforms=None, k=pidx)
        n += 1
        for nm, a, b, culprits in late[:1]:
            fails.append({"what": "%s depends on what was read before" % nm, "part": pidx, "fresh": a,
                          "after_other_reads": b, "population": population,
                          "single_earlier_reads_that_change_it": culprits, "oracle": "order_independent"})
    return fails, n


# ------------------------------------------------------------------------------------
# (d) threshold sweep of the minimum-base masks
# ------------------------------------------------------------------------------------

MASK_IMPORTS = cu.IMPORTS.replace("Model.CubeCountsRender.", "Model.CubeCountsRender Model.MinBaseMask.")
PROFILES = ["as-generated", "zero-heavy", "fractional", "boosted", "mixed"]
PROFILE_WEIGHTS = {
    "zero-heavy": [Fraction(0)] * 4 + [Fraction(1)] * 5 + [Fraction(5, 4)],
    "fractional": [Fraction(1, 8), Fraction(1, 4), Fraction(1, 2), Fraction(3, 4), Fraction(7, 8)],
    "boosted": [Fraction(1), Fraction(2), Fraction(7, 2), Fraction(5), Fraction(9, 8)],
    "mixed": [Fraction(0), Fraction(1, 8), Fraction(1), Fraction(5, 4), Fraction(3)],
}
SLICE_DIRS = (("row_mask", "row_unweighted_bases", "row_weighted_bases", ("in", "ok")),
              ("column_mask", "column_unweighted_bases", "column_weighted_bases", ("ok", "in")),
              ("table_mask", "table_unweighted_bases", "table_weighted_bases", ("ok", "ok")))
MAX_THRESHOLDS = 75


def reweight(rng, case, profile):
    """Replace the respondents' weights (the answers stay) and rebuild the response."""
    if profile != "as-generated":
        pool = PROFILE_WEIGHTS[profile]
        case["survey"]["weighted"] = True
        for r in case["survey"]["resp"]:
            r["w"] = str(rng.choice(pool))
    case["weight_profile"] = profile
    cu.finish_case(case)
    return case


def gen_mask_case(rng, k):
    shape = rng.choice(["1d", "1d", "1d", "2d", "2d", "2d", "3d", "ca", "ca", "ca3"])
    case = cu.gen_case(rng, k, shape_class=shape, numeric=(rng.random() < 0.12),
                       n_resp=rng.choice([3, 8, 15, 25, 30]))
    return reweight(rng, case, rng.choice(PROFILES[1:] + PROFILES[1:] + PROFILES[:1]))


def _finite(vals):
    out = set()
    for x in vals:
        e = core.to_exact(x)
        if isinstance(e, Fraction):
            out.add(e)
    return out


def _flat(v):
    a = np.asarray(v, dtype=float)
    return a.ravel().tolist()


def mask_thresholds(rng, io):
    """Thresholds just below / at / just above every distinct unweighted AND weighted base the
    implementation reports for the case (exact: the bases are dyadic).  -> sorted Fractions."""
    values = set()
    for ip in io["parts"]:
        for name in ("row_unweighted_bases", "row_weighted_bases", "column_unweighted_bases",
                     "column_weighted_bases", "table_unweighted_bases", "table_weighted_bases",
                     "unweighted_bases", "weighted_bases"):
            r = ip.get(name)
            if r is not None and r[0] == "ok" and r[1] is not None:
                values |= _finite(_flat(r[1]))
    if not values:
        return []
    den = 1
    for v in values:
        den = den * v.denominator // math.gcd(den, v.denominator)
    if den > 4096:
        return None                       # not dyadic enough to be exact floats: skip (counted)
    eps = Fraction(1, 2 * den)
    ts = set()
    for v in values:
        ts.update((v - eps, v, v + eps))
    ts = sorted(ts)
    if len(ts) > MAX_THRESHOLDS:
        keep = set(rng.sample(range(len(ts)), MAX_THRESHOLDS))
        ts = [t for n, t in enumerate(ts) if n in keep]
    return ts


def sweep_terms(case, thresholds):
    axes = case["_axes"]
    ds, p = cu.g_dims(axes), cu.g_payload(case["response"])
    sizes = core.g_list([core.g_xq(t) for t in thresholds])
    n_app = len([a for a in axes if a["role"] != "mr_sel"])
    if n_app >= 2 and not case.get("ca_as_0th"):
        return ("slices", "r_slice_masks %s %s %s" % (ds, p, sizes))
    if n_app >= 1:
        return ("strands", "r_strand_masks %s %s %s %s" % (
            ds, p, core.g_bool(bool(case.get("ca_as_0th"))), sizes))
    return None


def sweep_impl(case, thresholds):
    """-> per threshold: ('ok', [per partition {mask name: ('ok', nested bools) | ('exc', ..)}]) | ('exc', ..)"""
    cube_idx = 0 if case.get("ca_as_0th") else None
    out = []
    for t in thresholds:
        size = float(t)
        assert Fraction(size) == t
        res = impl.guarded(lambda: impl.cube(case["response"], mask_size=size, cube_idx=cube_idx).partitions)
        if res[0] != "ok":
            out.append(res)
            continue
        per = []
        for p in res[1]:
            tn = type(p).__name__
            d = {}
            if tn == "_Slice":
                for mn in ("row_mask", "column_mask", "table_mask"):
                    r = impl.guarded(lambda mn=mn: getattr(p.min_base_size_mask, mn))
                    d[mn] = (r[0], impl.tolist(r[1])) if r[0] == "ok" else r
            elif tn == "_Strand":
                r = impl.get(p, "min_base_size_mask")
                d["mask"] = (r[0], impl.tolist(r[1])) if r[0] == "ok" else r
            per.append(d)
        out.append(("ok", per))
    return out


def dec_sweep(kind, toks):
    d = core.Dec(toks)
    bvec = lambda: d.list(d.bool)  # noqa
    bmat = lambda: d.list(bvec)  # noqa

    def part():
        if d.Z() != 1:
            return None
        if kind == "slices":
            return d.list(lambda: {"row_mask": bmat(), "column_mask": bmat(), "table_mask": bmat()})
        return d.list(lambda: {"mask": bvec()})

    out = d.list(part)
    assert d.done()
    return out


def _bools(v):
    a = np.asarray(v)
    return a.astype(bool).tolist()


def compare_sweep(case, io, kind, thresholds, got, model, rep):
    """-> list of failures; counts the shapes it exercised in rep.dist."""
    fails = []
    sv = case["_sv"]
    oracle = cu.Oracle(sv, case["_axes"])
    use_oracle = not has_valid_counts(case)
    ca0 = bool(case.get("ca_as_0th"))
    parts = io["parts"]
    if len(model) != len(parts):
        return [{"what": "n_partitions", "impl": len(parts), "model": len(model)}]
    # unweighted bases from the respondents, weighted bases as reported (only to classify thresholds)
    exp_u, rep_w = [], []
    for k, ip in enumerate(parts):
        if kind == "slices":
            eu, rw = {}, {}
            for mn, _ub, wb, modes in SLICE_DIRS:
                eu[mn] = oracle.slice_cells(k, modes[0], modes[1], False) if use_oracle else None
                r = ip.get(wb)
                rw[mn] = r[1] if r is not None and r[0] == "ok" else None
            exp_u.append(eu)
            rep_w.append(rw)
        else:
            exp_u.append({"mask": oracle.strand_cells(k, "ok", False, ca0=ca0) if use_oracle else None})
            r = ip.get("weighted_bases")
            rep_w.append({"mask": r[1] if r is not None and r[0] == "ok" else None})
    for n, t in enumerate(thresholds):
        g = got[n]
        if g[0] != "ok":
            fails.append({"what": "partitions raise with mask_size", "size": str(t), "impl": g[1:]})
            continue
        for k, gp in enumerate(g[1]):
            mp = model[k]
            if mp is None:
                fails.append({"what": "model has no partition", "part": k})
                continue
            for mn in (("row_mask", "column_mask", "table_mask") if kind == "slices" else ("mask",)):
                what = mn if kind == "slices" else "strand mask"
                short = mn.split("_")[0] if kind == "slices" else "strand"
                r = gp.get(mn)
                if r is None or r[0] != "ok":
                    fails.append({"what": what, "part": k, "size": str(t), "impl": None if r is None else r[1:]})
                    continue
                gb = _bools(r[1])
                if gb != mp[n][mn]:
                    fails.append({"what": what, "part": k, "size": str(t), "impl": gb, "model": mp[n][mn],
                                  "oracle": "model"})
                eu = exp_u[k][mn]
                if eu is not None:
                    if kind == "slices":
                        eb = [[b < t for b in row] for row in eu]
                        flat_u = [b for row in eu for b in row]
                    else:
                        eb = [b < t for b in eu]
                        flat_u = list(eu)
                    if gb != eb:
                        fails.append({"what": what, "part": k, "size": str(t), "impl": gb, "expected": eb,
                                      "unweighted_bases_from_respondents": [str(b) for b in flat_u],
                                      "oracle": "survey"})
                    if any(b == t for b in flat_u):
                        rep.dist("mask-boundary(base==threshold):" + short)
                    rw = rep_w[k][mn]
                    if rw is not None:
                        flat_w = [core.to_exact(x) for x in _flat(rw)]
                        if len(flat_w) == len(flat_u) and any(
                                isinstance(w, Fraction) and ((w < t) != (u < t)) for w, u in zip(flat_w, flat_u)):
                            rep.dist("mask-threshold-separates-weighted-from-unweighted:" + short)
    return fails


def run_sweeps(rep, rng, sweep_cases, tag="masks"):
    """sweep_cases: [(case, io)] -> evaluates model + implementation for every threshold."""
    jobs, terms = [], []
    for case, io in sweep_cases:
        if "error" in io or not io["parts"]:
            continue
        ts = case.get("mask_thresholds")
        ts = [Fraction(x) for x in ts] if ts is not None else mask_thresholds(rng, io)
        if ts is None:
            rep.dist("mask-sweep-skipped:non-dyadic-bases")
            continue
        if not ts:
            continue
        kt = sweep_terms(case, ts)
        if kt is None:
            continue
        case["mask_thresholds"] = [str(t) for t in ts]
        jobs.append((case, io, kt[0], ts))
        terms.append(kt[1])
    results, coq_s = core.run_coq_cases(PID, MASK_IMPORTS, terms, shard=25, tag=tag) if terms else ([], 0.0)
    n_thr = 0
    all_fails = []
    for (case, io, kind, ts), toks in zip(jobs, results):
        model = dec_sweep(kind, toks)
        got = sweep_impl(case, ts)
        n_thr += len(ts)
        rep.dist("mask-sweep:" + cu.class_pair(case))
        rep.dist("mask-sweep:weights=" + case.get("weight_profile", "as-generated")
                 if case["_sv"].weighted else "mask-sweep:weights=unweighted")
        fails = compare_sweep(case, io, kind, ts, got, model, rep)
        all_fails.append((case, fails))
    return all_fails, n_thr, coq_s


# ------------------------------------------------------------------------------------
# (f) the mask of the partitions a CubeSet builds (tabbook stacks, CA-as-0th, numeric-summary inflation,
#     augmented single-column filter cubes): whichever way the cube was (re)built, the mask is true
#     exactly where the partition's own unweighted base is below the set's threshold.
#     (after seeded change C02-6: augment_response rebuilt the cube without the threshold)
# ------------------------------------------------------------------------------------

def gen_set_case(rng, k):
    from harness.props import c06
    sec = rng.choice(["tabbook", "ca0", "numeric", "augment", "augment"])
    case = {"tabbook": c06.gen_tabbook, "ca0": c06.gen_ca0, "numeric": c06.gen_numeric,
            "augment": c06.gen_augment}[sec](rng, k)
    case["mask_size"] = rng.choice([1, 2, 3, 5, 8])
    case["cube_set_mask"] = True
    return case


def _lt(bases, ms):
    import numpy as np
    return np.asarray(bases, dtype=float) < ms


def run_set_case(case):
    """[fail dicts], number of partitions examined"""
    import numpy as np
    from harness.props import c06, c06_util as u6
    sv = cu6_survey(case)
    if case["section"] == "augment":
        summary, _fulls, filts = c06.augment_responses(case)
        resps = [summary] + filts
    else:
        resps = [u6.response(sv, al, case["meas"]) for al in case["cubes"]]
    ms = case["mask_size"]
    res = impl.guarded(lambda: c06.cube_set(resps, ms).partition_sets)
    if res[0] != "ok":
        return [{"what": "exception", "where": "CubeSet.partition_sets", "impl": res[1:]}], 0
    fails, n = [], 0
    for si, pset in enumerate(res[1]):
        for ci, p in enumerate(pset):
            kind = type(p).__name__
            if kind == "_Strand":
                pairs = [("min_base_size_mask", impl.get(p, "min_base_size_mask"), impl.get(p, "unweighted_bases"))]
            elif kind == "_Slice":
                m = p.min_base_size_mask
                pairs = [("row_mask", impl.guarded(lambda: m.row_mask), impl.get(p, "row_unweighted_bases")),
                         ("column_mask", impl.guarded(lambda: m.column_mask), impl.get(p, "column_unweighted_bases")),
                         ("table_mask", impl.guarded(lambda: m.table_mask), impl.get(p, "table_unweighted_bases"))]
            else:
                continue
            n += 1
            for name, mv, bv in pairs:
                if mv[0] != "ok" or bv[0] != "ok":
                    fails.append({"what": "exception", "mask": name, "partition_set": si, "cube": ci,
                                  "impl": [mv[1:] if mv[0] != "ok" else None, bv[1:] if bv[0] != "ok" else None]})
                    continue
                got = np.asarray(mv[1], dtype=bool)
                exp = _lt(bv[1], ms)
                if got.shape != exp.shape or not np.array_equal(got, exp):
                    fails.append({"what": "cube-set-mask", "mask": name, "partition": kind, "partition_set": si,
                                  "cube": ci, "section": case["section"], "threshold": ms,
                                  "impl": core.jsonable(got), "unweighted_bases": core.jsonable(bv[1]),
                                  "expected": core.jsonable(exp), "oracle": "unweighted base < threshold"})
    return fails, n


def cu6_survey(case):
    from harness.props import cube_util as cu6
    return cu6.survey_from_json(case["survey"])


def describe(rep, case):
    rep.dist("class=" + cu.class_pair(case))
    sv = case["_sv"]
    rep.dist("weighted" if sv.weighted else "unweighted")
    if any(any(s == cu.MIS for s in r["ans"][a]) for r in sv.resp for a in case["aliases"]
           if sv.var(a).kind == "mr"):
        rep.dist("per_item_missingness")
    if case["perm"] is not None:
        rep.dist("permuted_axes")
    if has_valid_counts(case):
        rep.dist("valid_counts")
    rep.dist("mask_size=%d" % case.get("mask_size", 0))


def run(tier, seed):
    rep = core.Report(PID, tier, seed)
    ob = core.obligations_gate(rep, PID)
    n_cases = 260 if tier == "quick" else 4000
    n_sub_cases = 120 if tier == "quick" else 1500
    rng = random.Random(seed + 2)
    cases, ios, allterms, flat = [], [], [], []
    for k in range(n_cases):
        case = cu.gen_case(rng, k, numeric=(rng.random() < 0.15))
        io, terms = build(case)
        cases.append(case)
        ios.append(io)
        allterms.append(terms)
        flat.extend(t for (_k, t) in terms)
    # NEARLY FLAT WEIGHTS (cube_util.near_flat_variant, after seeded change C02-11: `np.allclose` instead of
    # list equality decided that a cube whose weights are all within 1e-5 of 1 is not weighted, and every
    # weighted base / margin reported the unweighted N): the first cases with >= 3 respondents, re-weighted
    rng_nf = random.Random(seed + 77)
    src = [c for c in cases if len(c["_sv"].resp) >= 3 and not c.get("ca_as_0th")][:(40 if tier == "quick" else 600)]
    for i, c0 in enumerate(src):
        case = cu.near_flat_variant(c0, rng_nf, 10 ** 6 + i)
        io, terms = build(case)
        cases.append(case)
        ios.append(io)
        allterms.append(terms)
        flat.extend(t for (_k, t) in terms)
    results, coq_s = core.run_coq_cases(PID, cu.IMPORTS, flat, shard=60) if flat else ([], 0.0)
    pos = 0
    for case, io, terms in zip(cases, ios, allterms):
        res = results[pos:pos + len(terms)]
        pos += len(terms)
        nt = len(case["_sv"].resp) > 0
        if case.get("near_flat_weights"):
            rep.dist("near-flat-weights (1 +- j * 2^-20)")
        rep.count_case(cu.replayable(case), nt)
        describe(rep, case)
        if nt:
            rep.sample({"class": cu.class_pair(case), "aliases": case["aliases"],
                        "perm": case["perm"], "n_resp": len(case["_sv"].resp)})
        for f in compare(case, io, terms, res):
            ctx = {"what": f.get("what"), "class": cu.class_pair(case)}
            rep.violation("impl-vs-model" if f.get("oracle") != "survey" else "impl-vs-survey",
                          cu.replayable(case), f, ctx)
    # ---- (d) threshold sweep of the masks: every case above + the re-weighted stream ----
    n_mask_cases = 150 if tier == "quick" else 2500
    rng_m = random.Random(seed + 5)
    sweep_cases = [(c, io) for c, io in zip(cases, ios) if len(c["_sv"].resp) > 0]
    for k in range(n_mask_cases):
        case = gen_mask_case(rng_m, k)
        io = cu.run_impl(case, cu.SLICE_BASE_NAMES, cu.STRAND_BASE_NAMES, masks=False)
        rep.count_case(dict(cu.replayable(case), mask_sweep=True), len(case["_sv"].resp) > 0)
        if "error" in io:
            rep.violation("impl-vs-model", cu.replayable(case), {"what": "exception", "impl": io["error"][1:]},
                          {"what": "exception", "class": cu.class_pair(case)})
            continue
        sweep_cases.append((case, io))
    sweep_fails, n_thresholds, coq_m = run_sweeps(rep, rng_m, sweep_cases)
    for case, fails in sweep_fails:
        for f in fails:
            ctx = {"what": f.get("what"), "class": cu.class_pair(case), "leg": "mask-sweep"}
            rep.violation("impl-vs-model" if f.get("oracle") != "survey" else "impl-vs-survey",
                          dict(cu.replayable(case), mask_sweep=True), f, ctx)
    n_subtotals = 0
    for k in range(n_sub_cases):
        case = gen_subtotal_case(rng, k)
        fails, ns = run_subtotal_case(case)
        n_subtotals += ns
        rep.count_case(cu.replayable(case), ns > 0)
        rep.dist("subtotal-case:" + cu.class_pair(case))
        for f in fails:
            ctx = {"what": f.get("what"), "class": cu.class_pair(case)}
            rep.violation("impl-vs-survey", cu.replayable(case), f, ctx,
                          failing_input=not f.get("no_impl"))
    # ---- (e) blocks of the base measures: Model/BaseBlocks.v on the implementation's base block ----
    n_block_cases = 140 if tier == "quick" else 2000
    rng_b = random.Random(seed + 7)
    block_cases = [gen_block_case(rng_b, k) for k in range(n_block_cases)]
    block_res, n_block_terms, coq_b = run_block_cases(block_cases)
    for case, fails in block_res:
        rep.count_case(cu.replayable(case), True)
        rep.dist("base-blocks-case:" + cu.class_pair(case))
        for f in fails:
            ctx = {"what": f.get("what"), "class": cu.class_pair(case), "leg": "base-blocks"}
            rep.violation("impl-vs-model", cu.replayable(case), f, ctx, failing_input=not f.get("no_impl"))
    rep.cov["base_block_terms_evaluated"] = n_block_terms
    # ---- (f) read order: every second case of (a) and of (e) ----
    n_late = 0
    for case in [c for c in cases if c["k"] % 2 == 0 and len(c["_sv"].resp) > 0] + \
                [c for c in block_cases if c["k"] % 2 == 0]:
        fails, n = late_read_fails(case)
        n_late += n
        if n:
            rep.dist("late-reads:" + cu.class_pair(case))
        for f in fails:
            ctx = {"what": f.get("what"), "class": cu.class_pair(case), "leg": "late-reads"}
            rep.violation("impl-vs-property", dict(cu.replayable(case), late_reads=True), f, ctx)
    rep.cov["late_read_partitions"] = n_late
    # ---- (f) masks of the partitions of a CubeSet ----
    n_set_cases = 40 if tier == "quick" else 600
    rng_s = random.Random(seed + 11)
    n_set_parts = 0
    for k in range(n_set_cases):
        case = gen_set_case(rng_s, k)
        fails, npart = run_set_case(case)
        n_set_parts += npart
        rcase = {kk: vv for kk, vv in case.items() if not kk.startswith("_")}
        rep.count_case(rcase, npart > 0)
        rep.dist("cube-set-mask:" + case["section"])
        for f in fails:
            rep.violation("impl-vs-property", rcase, f, {"what": f.get("what"), "leg": "cube-set-mask",
                                                         "section": case["section"]})
    rep.cov["cube_set_partitions_mask_checked"] = n_set_parts
    rep.cov["rule"] = (
        "cases from random.Random(seed+2): same survey generator as C01 (all dimension kinds, class "
        "pairs, 1-D/2-D/3-D, weighted/unweighted, per-item MR missingness, missing categories "
        "anywhere), mask sizes {0,1,2,3,5,10}; plus a stream of CAT/MR slices with sum-only subtotal "
        "insertions on the categorical dimensions; plus (seed+5) a stream of strands (CAT / MR / enum / "
        "CA-as-0th) and slices re-weighted with zero-heavy / fractional / boosted / mixed weights; for "
        "every case with respondents the masks are read at thresholds base-eps, base, base+eps for EVERY "
        "distinct weighted and unweighted base of the case (eps = half the grid of the dyadic bases; at "
        "most %d thresholds per case). non-trivial = at least one respondent (resp. at least one "
        "subtotal); distinct by content hash" % MAX_THRESHOLDS)
    rep.cov["coq_eval_seconds"] = round(coq_s + coq_m + coq_b, 2)
    rep.cov["mask_thresholds_evaluated"] = n_thresholds
    rep.cov["model_terms_evaluated"] = len(flat)
    rep.cov["subtotal_vectors_checked"] = n_subtotals
    rep.assumptions = [
        "survey-level theorems cover categorical (incl. enum) and MR dimensions; array class pairs by "
        "model-vs-implementation and the survey oracle only",
        "subtotal blocks of the base measures: modelled (Model/Proportions.v row/col/table_base_blocks, "
        "Model/BaseBlocks.v), tied to matrix/measure.py by the C02_gen_<Measure> obligations and compared here with "
        "the implementation on the base block it reports; the survey oracle covers sum-only subtotals",
        "subtotal addend positions are read from the library's private Dimension.subtotals",
        "float64 vs exact rationals: relative tolerance 1e-9",
    ]
    return rep.finish("proof", ob, trusted_base=core.TRUSTED_BASE_COMMON + [
        "Model/CubeCounts.v and Model/MinBaseMask.v are hand-written; tied to matrix/measure.py margins, "
        "cubepart.py fall-backs / _Strand.min_base_size_mask and min_base_size_mask.py by this correspondence "
        "run only; its bases / margins / scalar table base of the "
        "nine class pairs (through the factory dict, inheritance flattened) and the stripe bases are ALSO tied "
        "to the text of matrix/cubemeasure.py and stripe/cubemeasure.py by the C02_gen_* obligations "
        "(Proofs/GenAgreeBases.v); the blocks of the seven 2-D base measures, the marginals, the scalar table "
        "base / range, the strand bases and the comparison of MinBaseSizeMask are tied to the text of "
        "matrix/measure.py, stripe/measure.py, min_base_size_mask.py by the C02_gen_<Measure> / C02_gen_margin_* / "
        "C02_gen_MinBaseSizeMask obligations (Proofs/GenAgreeBaseBlocks.v, GenAgreeMargins.v; trusted: "
        "harness/translate/x_bases.py, Base/BasesExp.v's reading of numpy indexing / broadcast_to)",
        core.TRUSTED_BASE_TRANSLATOR])


def replay(path):
    d = json.load(open(path))
    if d["violation"].get("kind") in core.OBLIGATION_KINDS:  # a broken obligation, no input to re-run
        return core.replay_obligations(PID, d)
    case = d["violation"]["case"]
    if case.get("cube_set_mask"):
        fails, _n = run_set_case(case)
        for f in fails:
            print("REPLAY still fails:", json.dumps(core.jsonable(f))[:600])
        if not fails:
            print("REPLAY: no longer fails")
        return 1 if fails else 0
    cu.finish_case(case)
    if case.get("late_reads"):
        fails, _n = late_read_fails(case)
    elif case.get("subtotals"):
        fails, _ = run_subtotal_case(case)
    elif case.get("base_blocks"):
        res, _n, _s = run_block_cases([case], tag="replay")
        fails = [f for _c, fs in res for f in fs]
    elif case.get("mask_sweep"):
        io = cu.run_impl(case, cu.SLICE_BASE_NAMES, cu.STRAND_BASE_NAMES, masks=False)
        if "error" in io:
            fails = [{"what": "exception", "impl": io["error"][1:]}]
        else:
            rep = core.Report(PID, "quick", d.get("seed", 0))
            res, _n, _s = run_sweeps(rep, random.Random(0), [(case, io)], tag="replay")
            fails = [f for _c, fs in res for f in fs]
    else:
        io, terms = build(case)
        results, _ = core.run_coq_cases(PID, cu.IMPORTS, [t for (_k, t) in terms], tag="replay")
        fails = compare(case, io, terms, results)
    for f in fails:
        print("REPLAY still fails:", json.dumps(core.jsonable(f))[:600])
    if not fails:
        print("REPLAY: no longer fails")
    return 1 if fails else 0
