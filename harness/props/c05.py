# -*- coding: utf-8 -*-
"""C05 - Display transforms only select and reorder; every output stays aligned.

Two oracles per generated case:

(a) RELATIONAL, on the implementation alone (harness/props/c05_util.check_pair): the partition is
    built with the case's transforms X and with X stripped of order / hide / prune (insertions,
    names, fills, smoother, pairwise settings kept).  Every public property of the partition class
    (enumerated by introspection: matrices, marginals, labels, codes, aliases, fills, position lists,
    pairwise index sets, per-column methods, nested value objects) of the first run must equal that
    of the second run re-indexed by the reported row_order() / column_order(); scalars must be
    unchanged; shape = (|row_order|, |column_order|); the order lists nothing twice and only
    -n_subtotals..n_elements-1.

(b) CORRESPONDENCE of Model/Assemble.v (run inside Coq): the four blocks / two blocks / attribute
    lists are read back from the UNtransformed run through its own reported order, the model
    assembles them with the order reported by the TRANSFORMED run, and the result is compared with
    the transformed run (sample of measures, marginals, labels, fills, position lists, pairwise sets).

Known open findings (reported as KNOWN-FINDING, see known_findings.d/C05-*.json) are matched by the
narrow signature contexts built in c05_util.check_pair.  Two former findings are repaired in /repo and
are plain requirements now: a display order never lists anything twice, whatever the fixed lists of a
value sort name (C05-fixed-repeats, 471ab8ef), and the position lists never raise, however many
subtotals a dimension has (C05-derived-idxs-indexerror, 434a0d94); their witnesses are fixed cases.

(d) RENDERINGS of the reported order (c05_util.check_renderings; added after seeded change C05-6, which made
    the insertion-id form `row_order(ORDER_FORMAT.BOGUS_IDS)` / `column_order(...)` hand out 'ins_<id>' in
    definition order while the signed form and all values stayed right - the check read the order in the
    signed form only).  The order is reported in two forms and the outputs must be aligned with "the reported
    order" in either: in BOTH runs, on every axis, position i of the insertion-id form must name what
    position i of the signed form names (base index unchanged; 'ins_<k>', k = insertion id of the subtotal
    the negative index addresses, ids read from the dimension's subtotal sequence, not from the collator),
    the label displayed there must be the label of a subtotal with id k, and the insertion-id form of the
    transformed run must be that of the untransformed run re-indexed by the order like any other output.
    A generator class (c05_util.gen_insertion_order_case) guarantees dimensions with >= 2 subtotals
    displayed in another order than they are defined in, under payload / explicit / value-sort orders, on
    slice rows, slice columns and strands; coverage is recorded as `ins-id-order[run]: <where> <collation>
    <class>` in the evidence distribution.

(e) READ ORDER (c05_util.check_read_order; added after seeded change C05-9, which folded the two
    `rows_dimension_fills` into a helper that converts the negative subtotal indexes "vectorised" on
    `np.asarray(order)` - the cached signed row order itself - so that READING THE FILLS rewrote the reported
    order in place: afterwards row_order() held offsets >= n_elements, inserted_row_idxs was () with subtotal
    rows displayed, and row_order(BOGUS_IDS) no longer named what row_order() named; values, labels and fills
    stayed right, and legs (a)-(d) read the order first and the fills late on a fresh partition).  "Position i
    of every output refers to the same element" and "re-indexed by the REPORTED order" hold for whichever
    output a caller reads first, so for every third case number, on the transformed and the untransformed run
    whose order displays a subtotal (slices and strands), the order-dependent outputs (row_order / column_order
    in both forms, inserted / derived / diff position lists, labels, codes, aliases, fills, shape, row_count,
    payload_order; by introspection) are read (1) each as the first read of its own new partition, (2) on a
    second partition in the sequence of an exporter: fills FIRST, the other headings, the position lists and
    the extent, the order in both forms last, (3) (transformed run) through common_cases.late_reads: after
    EVERY public property of another partition read in an order shuffled by the case number; (2) and (3)
    must give the values of (1), and (3) names the single earlier reads that change an output.  Coverage:
    `read-order[<schedule>]: <slice|strand> <run>, displayed subtotals on <axes>`.
"""
import json
import random

import numpy as np

from harness import core, impl
from harness.core import g_bool, g_list, g_mat, g_nat, g_vec, g_Z
from harness.props import c05_util as cu

PID = "C05"
IMPORTS = """From Coq Require Import QArith ZArith List Bool.
From CC Require Import Base.XQ Base.Render Base.ListX Model.Assemble.
Import ListNotations."""

MATRIX_SAMPLE = ["counts", "unweighted_counts", "column_proportions", "row_proportions", "table_proportions",
                 "zscores", "pvals", "column_index", "table_std_err", "column_weighted_bases",
                 "row_unweighted_bases", "means", "sums", "population_counts", "column_share_sum"]
ROW_VEC_SAMPLE = ["rows_margin", "rows_base", "rows_scale_mean", "rows_scale_median", "rows_margin_proportion"]
COL_VEC_SAMPLE = ["columns_margin", "columns_base", "columns_scale_mean", "columns_scale_mean_stddev"]
STRAND_VEC_SAMPLE = ["counts", "unweighted_counts", "table_proportions", "table_proportion_stderrs",
                     "unweighted_bases", "weighted_bases", "means", "sums", "population_counts", "share_sum"]


# ------------------------------------------------------------------------------------
# fixed cases: the minimal witnesses of the recorded findings come first
# ------------------------------------------------------------------------------------

def _cat_dim(alias, ids, values=None):
    cats = [{"id": i, "missing": False, "name": "%s_c%d" % (alias, i),
             "numeric_value": (values[k] if values else None)} for k, i in enumerate(ids)]
    return {"derived": False, "references": {"alias": alias, "name": alias.upper()},
            "type": {"class": "categorical", "ordinal": False, "categories": cats}}


def _catxcat(counts, row_ids, col_ids, row_values=None, col_values=None):
    flat = [x for r in counts for x in r]
    return {"query": {}, "result": {
        "counts": flat, "dimensions": [_cat_dim("rowv", row_ids, row_values), _cat_dim("colv", col_ids, col_values)],
        "measures": {"count": {"data": flat, "metadata": {"derived": True, "references": {},
                                                          "type": {"class": "numeric", "integer": True}},
                               "n_missing": 0}},
        "element": "crunch:cube", "n": sum(flat), "missing": 0}}


def witness_cases():
    out = []
    # former finding C05-fixed-repeats (repaired in /repo 471ab8ef): fixed.top = [2, 2], bottom = [2]
    # listed row 2 three times (row_order [1, 1, 2, 0, 1]); now [1, 2, 0]
    out.append({"k": -1, "name": "fixed-repeats-repaired", "malformed": False, "strand": False,
                "kinds": ["cat", "cat"],
                "response": _catxcat([[1, 2], [3, 4], [5, 6]], [1, 2, 3], [1, 2]),
                "transforms": {"rows_dimension": {"order": {
                    "type": "opposing_element", "element_id": 1, "measure": "count_unweighted",
                    "fixed": {"top": [2, 2], "bottom": [2]}}}}})
    # former finding C05-derived-idxs-indexerror (repaired in /repo 434a0d94): one valid column category
    # and three subtotals on it - derived_column_idxs raised IndexError (flag vector padded with
    # n_elements); rows: a value sort with the same id at both ends of the fixed lists
    ins = [{"function": "subtotal", "name": "s%d" % k, "anchor": a, "args": [1]}
           for k, a in enumerate(["top", 1, "bottom"])]
    out.append({"k": -5, "name": "derived-idxs-repaired", "malformed": False, "strand": False,
                "kinds": ["cat", "cat"],
                "response": _catxcat([[1], [2], [3]], [1, 2, 3], [1]),
                "transforms": {"columns_dimension": {"insertions": ins},
                               "rows_dimension": {"order": {
                                   "type": "opposing_insertion", "insertion_id": 1, "measure": "count_unweighted",
                                   "direction": "ascending", "fixed": {"top": [3], "bottom": [1, 3, 1]}}}}})
    # former finding (repaired in /repo eed80ace): hiding row 1 changed columns_scale_mean_margin
    # 2.0 -> 2.666..; the margins must now be invariant like every scalar
    out.append({"k": -2, "name": "scale-margins-hidden-repaired", "malformed": False, "strand": False,
                "kinds": ["cat", "cat"],
                "response": _catxcat([[2, 0], [0, 1], [2, 0]], [1, 2, 3], [1, 2], row_values=[1, 2, 3]),
                "transforms": {"rows_dimension": {"elements": {"1": {"hide": True}}}}})
    # C05-scale-mean-pairwise-hidden: hiding the middle row changes the scale-mean t-test
    out.append({"k": -4, "name": "scale-mean-pairwise-hidden", "malformed": False, "strand": False,
                "kinds": ["cat", "cat"],
                "response": _catxcat([[4, 1], [1, 1], [1, 4]], [1, 2, 3], [1, 2], row_values=[1, 2, 3]),
                "transforms": {"rows_dimension": {"elements": {"2": {"hide": True}}}}})
    # plain re-ordering + hiding + pruning on both dimensions with insertions (must pass)
    out.append({"k": -3, "name": "plain", "malformed": False, "strand": False, "kinds": ["cat", "cat"],
                "response": _catxcat([[1, 2, 0], [3, 4, 0], [5, 6, 0]], [1, 2, 3], [1, 2, 3],
                                     row_values=[1, 2, 3], col_values=[3, 2, 1]),
                "transforms": {
                    "rows_dimension": {"insertions": [{"function": "subtotal", "name": "top2", "anchor": "top",
                                                       "args": [1, 2]},
                                                      {"function": "subtotal", "name": "d", "anchor": 2,
                                                       "kwargs": {"positive": [3], "negative": [1]}}],
                                       "order": {"type": "explicit", "element_ids": [3, 1, 2]},
                                       "prune": True},
                    "columns_dimension": {"insertions": [{"function": "subtotal", "name": "c12", "anchor": "bottom",
                                                          "args": [1, 2]}],
                                          "elements": {"1": {"hide": True}}, "prune": True,
                                          "order": {"type": "opposing_element", "element_id": 2,
                                                    "measure": "col_percent", "direction": "ascending"}},
                    "pairwise_indices": {"alpha": [0.05, 0.4], "only_larger": False}}})
    return out


# ------------------------------------------------------------------------------------
# correspondence with Model/Assemble.v
# ------------------------------------------------------------------------------------

def _numeric_2d(v, shape):
    return isinstance(v, np.ndarray) and v.ndim == 2 and v.shape == shape and v.dtype != object


def _tokens(seq, table):
    return [table.setdefault(repr(x), len(table) + 1) for x in seq]


def _split_by_order(values, order, n, n_sub):
    """(base, subtotals) in payload order of a vector displayed in `order` (any python values)"""
    full = [None] * (n + n_sub)
    for v, s in zip(values, order):
        full[s if s >= 0 else n + n_sub + s] = v
    return full[:n], full[n:]


def g_Zs(l):
    return g_list([g_Z(z) for z in l])


def model_terms(case, res, rng):
    """[(what, term, expected, decoder)] for one case whose relational run is `res`"""
    ctx, A, B = res["ctx"], res["A"], res["B"]
    info = res["info"]["dims"]
    strand = ctx.ncb is None
    out = []
    if strand:
        n, m = info
        for name in rng.sample(STRAND_VEC_SAMPLE, 3):
            va, vb = impl.get(A, name), impl.get(B, name)
            if va[0] != "ok" or vb[0] != "ok" or not isinstance(vb[1], np.ndarray) or vb[1].shape != (ctx.nrb,):
                continue
            base, subs = impl.blocks1d(vb[1], ctx.ro_b, n, m)
            out.append((name, "run_vector %s %s %s" % (g_vec(base), g_vec(subs), g_Zs(ctx.ro_a)),
                        [float(x) for x in va[1]], "vec"))
    else:
        n, m, p, q = info
        names = [x for x in MATRIX_SAMPLE]
        rng.shuffle(names)
        took = 0
        for name in names:
            if took >= 2:
                break
            va, vb = impl.get(A, name), impl.get(B, name)
            if va[0] != "ok" or vb[0] != "ok" or not _numeric_2d(vb[1], (ctx.nrb, ctx.ncb)):
                continue
            bl = impl.blocks2d(vb[1], ctx.ro_b, ctx.co_b, n, p, m, q)
            term = "run_matrix %s %s %s %s (mkBlocks %s %s %s %s) %s %s" % (
                g_nat(n), g_nat(m), g_nat(p), g_nat(q), g_mat(bl[0][0]), g_mat(bl[0][1]), g_mat(bl[1][0]),
                g_mat(bl[1][1]), g_Zs(ctx.ro_a), g_Zs(ctx.co_a))
            out.append((name, term, np.asarray(va[1], dtype=float).tolist(), "mat"))
            took += 1
        for names_, order_a, order_b, nn, mm in ((ROW_VEC_SAMPLE, ctx.ro_a, ctx.ro_b, n, m),
                                                 (COL_VEC_SAMPLE, ctx.co_a, ctx.co_b, p, q)):
            name = rng.choice(names_)
            va, vb = impl.get(A, name), impl.get(B, name)
            if va[0] == "ok" and vb[0] == "ok" and isinstance(vb[1], np.ndarray) and vb[1].ndim == 1 \
                    and vb[1].shape == (len(order_b),) and isinstance(va[1], np.ndarray):
                base, subs = impl.blocks1d(vb[1], order_b, nn, mm)
                out.append((name, "run_vector %s %s %s" % (g_vec(base), g_vec(subs), g_Zs(order_a)),
                            [float(x) for x in va[1]], "vec"))
    # (c) the same model fed with the blocks of the measure objects themselves (private _measures /
    #     _dimensions: no public way) - independent of the assembly code, so a mis-assembly that is
    #     consistent between the two runs (wrong negative offset, wrong fill of a subtotal) shows
    out.extend(independent_terms(res, rng))
    # labels / codes / aliases (numpy indexing) and fills (their own formula): the same order vector
    axes = [("row", ctx.ro_a, ctx.ro_b, 0)] + ([] if strand else [("column", ctx.co_a, ctx.co_b, 1)])
    for ax_name, order_a, order_b, axis in axes:
        nn, mm = info[2 * axis], info[2 * axis + 1]
        attr = rng.choice(["labels", "codes", "aliases"])
        name = "%s_%s" % (ax_name, attr)
        fills = "%ss_dimension_fills" % ax_name
        for nm in (name, fills):
            va, vb = impl.get(A, nm), impl.get(B, nm)
            if va[0] != "ok" or vb[0] != "ok" or len(vb[1]) != len(order_b):
                continue
            table = {}
            tb = _tokens(list(vb[1]), table)
            ta = _tokens(list(va[1]), table)
            base, subs = _split_by_order(tb, order_b, nn, mm)
            if any(x is None for x in base + subs):
                continue
            out.append((nm, "run_tokens %s %s %s" % (g_Zs(base), g_Zs(subs), g_Zs(order_a)), ta,
                        "tokens_fills" if nm == fills else "tokens_labels"))
        # position lists
        try:
            dim = B._dimensions[axis]
            derived = [bool(e.derived) for e in dim.valid_elements]
            is_diff = [bool(s.is_difference) for s in dim.subtotals]
        except Exception:  # noqa
            continue
        got = []
        ok = True
        for nm in ("inserted_%s_idxs" % ax_name, "derived_%s_idxs" % ax_name, "diff_%s_idxs" % ax_name):
            va = impl.get(A, nm)
            if va[0] != "ok":
                ok = False
                break
            got.append([int(x) for x in va[1]])
        if ok and len(derived) == nn and len(is_diff) == mm:
            out.append(("%s position lists" % ax_name,
                        "run_positions %s %s %s %s" % (g_list([g_bool(b) for b in derived]),
                                                       g_list([g_bool(b) for b in is_diff]),
                                                       g_bool(strand), g_Zs(order_a)), got, "positions"))
    # pairwise index sets renumbered through the column order
    if not strand and ctx.nca and ctx.nra:
        va, vb = impl.get(A, "pairwise_indices"), impl.get(B, "pairwise_indices")
        if va[0] == "ok" and vb[0] == "ok" and getattr(vb[1], "shape", None) == (ctx.nrb, ctx.ncb) \
                and getattr(va[1], "shape", None) == (ctx.nra, ctx.nca):
            cells = [(i, j) for i in range(ctx.nra) for j in range(ctx.nca)]
            rng.shuffle(cells)
            cells = cells[:6]
            sigs, want = [], []
            for i, j in cells:
                sb = vb[1][ctx.rmap[i]][ctx.cmap[j]]
                sigs.append([ctx.co_b[c] for c in sb])
                want.append([int(x) for x in va[1][i][j]])
            out.append(("pairwise_indices", "run_renumber %s %s" % (g_Zs(ctx.co_a), g_list([g_Zs(s) for s in sigs])),
                        want, "renumber"))
    return out


MEASURE_ATTR = {"counts": "weighted_counts", "pvals": "pvalues"}


def _lists(a, nr, nc):
    a = np.asarray(a, dtype=float).reshape(nr, nc)
    return a.tolist()


def independent_terms(res, rng):
    ctx, A = res["ctx"], res["A"]
    info = res["info"]["dims"]
    strand = ctx.ncb is None
    out = []
    try:
        meas = A._measures
        dims = A._dimensions
    except Exception:  # noqa
        return out
    if strand:
        n, m = info
        for name in rng.sample(STRAND_VEC_SAMPLE, 2):
            va = impl.get(A, name)
            r = impl.guarded(lambda: getattr(meas, MEASURE_ATTR.get(name, name)).blocks)
            if va[0] != "ok" or r[0] != "ok" or not isinstance(va[1], np.ndarray):
                continue
            base, subs = [np.asarray(b, dtype=float).tolist() for b in r[1]]
            if len(base) != n or len(subs) != m:
                continue
            exp = [float(x) for x in va[1]]
            if name == "population_counts":
                continue
            out.append((name + " <- _measures blocks", "run_vector %s %s %s" % (g_vec(base), g_vec(subs),
                                                                              g_Zs(ctx.ro_a)), exp, "vec"))
    else:
        n, m, p, q = info
        names = [x for x in MATRIX_SAMPLE if x not in ("population_counts",)]
        rng.shuffle(names)
        took = 0
        for name in names:
            if took >= 2:
                break
            va = impl.get(A, name)
            r = impl.guarded(lambda: getattr(meas, MEASURE_ATTR.get(name, name)).blocks)
            if va[0] != "ok" or r[0] != "ok" or not _numeric_2d(va[1], (ctx.nra, ctx.nca)):
                continue
            try:
                bl = r[1]
                b00, b01 = _lists(bl[0][0], n, p), _lists(bl[0][1], n, q)
                b10, b11 = _lists(bl[1][0], m, p), _lists(bl[1][1], m, q)
            except Exception:  # noqa
                continue
            term = "run_matrix %s %s %s %s (mkBlocks %s %s %s %s) %s %s" % (
                g_nat(n), g_nat(m), g_nat(p), g_nat(q), g_mat(b00), g_mat(b01), g_mat(b10), g_mat(b11),
                g_Zs(ctx.ro_a), g_Zs(ctx.co_a))
            out.append((name + " <- _measures blocks", term, np.asarray(va[1], dtype=float).tolist(), "mat"))
            took += 1
    axes = [("row", ctx.ro_a, 0)] + ([] if strand else [("column", ctx.co_a, 1)])
    for ax_name, order_a, axis in axes:
        try:
            dim = dims[axis]
            lab = (list(dim.element_labels), list(dim.subtotal_labels))
            fil = ([e.fill for e in dim.valid_elements], [s.fill for s in dim.subtotals])
        except Exception:  # noqa
            continue
        for nm, (base, subs), kind in (("%s_labels" % ax_name, lab, "tokens_labels"),
                                       ("%ss_dimension_fills" % ax_name, fil, "tokens_fills")):
            va = impl.get(A, nm)
            if va[0] != "ok":
                continue
            table = {}
            tb, ts = _tokens([str(x) for x in base], table), _tokens([str(x) for x in subs], table)
            ta = _tokens([str(x) for x in va[1]], table)
            out.append((nm + " <- _dimensions", "run_tokens %s %s %s" % (g_Zs(tb), g_Zs(ts), g_Zs(order_a)),
                        ta, kind))
    return out


def decode_and_compare(what, toks, expected, dec_kind):
    d = core.Dec(toks)
    if dec_kind == "mat":
        m = d.mat()
        diff = core.first_diff_mat(expected, m)
        return None if diff is None else {"output": what, "first_diff": diff}
    if dec_kind == "vec":
        v = d.vec()
        return None if core.close_vec(expected, v) else {"output": what, "model": core.jsonable(v),
                                                         "impl": core.jsonable(expected)}
    if dec_kind in ("tokens_labels", "tokens_fills"):
        lab, fil = d.nats(), d.nats()
        got = fil if dec_kind == "tokens_fills" else lab
        return None if got == expected else {"output": what, "model": got, "impl": expected}
    if dec_kind == "positions":
        got = [d.nats(), d.nats(), d.nats()]
        return None if got == expected else {"output": what, "model": got, "impl": expected}
    if dec_kind == "renumber":
        got = d.list(d.nats)
        return None if got == expected else {"output": what, "model": got, "impl": expected}
    raise ValueError(dec_kind)


# ------------------------------------------------------------------------------------
# running
# ------------------------------------------------------------------------------------

def features(case, rep):
    tr = case.get("transforms") or {}
    for dk in ("rows_dimension", "columns_dimension"):
        t = tr.get(dk) or {}
        o = t.get("order")
        rep.dist("%s.order=%s" % (dk[:3], (o or {}).get("type", "none") if o is not None else "none"))
        if o and o.get("fixed"):
            rep.dist("order.fixed")
        if t.get("prune") is True:
            rep.dist("%s.prune" % dk[:3])
        els = t.get("elements") or {}
        if any(isinstance(x, dict) and x.get("hide") for x in els.values()):
            rep.dist("%s.hide" % dk[:3])
            for k in els:
                rep.dist("hide-key=" + ("int" if isinstance(k, int) else
                                        "digits" if str(k).lstrip("-").isdigit() else "alias"))
        if "insertions" in t:
            rep.dist("transform-insertions")
    if (tr.get("rows_dimension") or {}).get("prune") is True and (tr.get("columns_dimension") or {}).get("prune") is True:
        rep.dist("prune-rows-and-columns")
    rep.dist("kinds=" + "x".join(case.get("kinds", [])))
    if case.get("malformed"):
        rep.dist("malformed-stream")


def report_issues(rep, case, res):
    n = 0
    for i in res["issues"]:
        detail = dict(i.detail) if isinstance(i.detail, dict) else {"detail": i.detail}
        detail["output"] = i.output
        ctx = dict(i.ctx)
        r = rep.violation(i.kind, cu.replayable(case), detail, ctx,
                          failing_input=i.kind != "harness")
        if r == "violation":
            n += 1
    return n


def run_cases(rep, cases, n_model, rng):
    todo, terms = [], []
    n_cases_modelled = 0
    for case in cases:
        try:
            res = cu.check_pair(case)
        except Exception as e:  # noqa  (a crash of the comparator must be visible, not fatal)
            rep.count_case(cu.replayable(case), False)
            rep.violation("harness", cu.replayable(case), {"error": repr(e)}, {"sig": "harness-error"},
                          failing_input=False)
            continue
        nontrivial = res["status"] == "done" and (any(res["info"].get("reordered", [])) or
                                                  any(bool(x) for x in res["info"].get("removed", [])))
        rep.count_case(cu.replayable(case), nontrivial)
        rep.dist("status=" + res["status"])
        features(case, rep)
        for key in res["info"].get("renderings", ()):
            rep.dist(key)
        for key in res["info"].get("read_order", ()):
            rep.dist(key)
        if case.get("ins_order_class"):
            rep.dist("class=insertion-order (>=2 subtotals per categorical dimension)")
        rep.cov["output_comparisons"] = rep.cov.get("output_comparisons", 0) + res["n"]
        for key in ("skipped_legacy_on_arrays", "untransformed_undefined", "empty_display_exceptions"):
            if res["info"].get(key):
                rep.cov[key] = rep.cov.get(key, 0) + res["info"][key]
        if res["info"].get("uncallable"):
            rep.cov["methods_not_called"] = sorted(set(rep.cov.get("methods_not_called", [])) |
                                                   set(res["info"]["uncallable"]))
        if "n_outputs" in res["info"]:
            rep.cov["public_outputs_" + res["info"]["class"]] = res["info"]["n_outputs"]
        if res["status"] == "done":
            if res["info"]["empty_display"]:
                rep.dist("nothing-displayed")
            if any(bool(x) for x in res["info"]["removed"]):
                rep.dist("some-vector-removed")
            if any(res["info"]["reordered"]):
                rep.dist("reordered")
        report_issues(rep, case, res)
        if nontrivial:
            rep.sample({"kinds": case.get("kinds"), "transforms": case.get("transforms"),
                        "row_order": res["ctx"].ro_a, "column_order": res["ctx"].co_a})
        if res["status"] == "done" and n_cases_modelled < n_model:
            n_cases_modelled += 1
            try:
                ts = model_terms(case, res, rng)
            except Exception as e:  # noqa
                rep.violation("harness", cu.replayable(case), {"error": repr(e), "where": "model_terms"},
                              {"sig": "harness-error"}, failing_input=False)
                ts = []
            for what, term, expected, kind in ts:
                todo.append((case, what, expected, kind))
                terms.append(term)
    results, coq_s = core.run_coq_cases(PID, IMPORTS, terms, shard=60) if terms else ([], 0.0)
    rep.cov["coq_eval_seconds"] = round(rep.cov.get("coq_eval_seconds", 0) + coq_s, 2)
    rep.cov["model_terms"] = rep.cov.get("model_terms", 0) + len(terms)
    for (case, what, expected, kind), toks in zip(todo, results):
        rep.dist("model:" + kind)
        bad = decode_and_compare(what, toks, expected, kind)
        if bad is not None:
            rep.violation("correspondence", cu.replayable(case), bad,
                          {"sig": "assemble-model-differs", "output": what})


def run(tier, seed):
    rep = core.Report(PID, tier, seed)
    ob = core.obligations_gate(rep, PID)
    rng = random.Random(seed + 5)
    n = 420 if tier == "quick" else 6000
    n_model_cases = 220 if tier == "quick" else 2500
    cases = witness_cases() + [cu.gen_case(rng, k) for k in range(n)]
    # class "insertion order": subtotals displayed in another order than defined, every collation kind
    irng = random.Random(seed + 555)
    n_ins = 90 if tier == "quick" else 1200
    cases += [cu.gen_insertion_order_case(irng, 100000 + k) for k in range(n_ins)]
    mrng = random.Random(seed + 55)
    # the model is evaluated in batches so that the list of live partitions stays small
    step = 300
    for s in range(0, len(cases), step):
        chunk = cases[s:s + step]
        run_cases(rep, chunk, max(0, min(len(chunk), n_model_cases - s)), mrng)
    rep.cov["rule"] = (
        "5 fixed cases (the former witnesses of the repaired findings C05-fixed-repeats, "
        "C05-derived-idxs-indexerror and of the scale margins, the witness of C05-scale-mean-pairwise-hidden, one "
        "plain case) + cases "
        "from random.Random(seed+5): slices over CAT|CAT_DATE|MR|DATETIME|TEXT|BINNED x the same, CA_SUBVAR x "
        "CA_CAT, 3-D cubes (one table), strands over CAT|CAT_DATE|MR|TEXT|DATETIME; 0..50 respondents, "
        "weighted 60%, emptied categories / items for pruning; view and/or transform insertions incl. "
        "differences, stale ids; mean/sum/stddev/median measures and valid counts in 40%; overlaps / squared "
        "weights sometimes; per dimension: elements with hide in every spelling (int / str key, alias, subvar "
        "id; True/False/None/1/0), fills, names; prune on rows AND columns (60% each); order of every kind "
        "(explicit with repeats / stale / string ids, payload_order, unknown type, label, opposing_element, "
        "opposing_insertion, marginal, univariate_measure; direction; fixed top/bottom with repeats, ids at "
        "both ends, stale ids; unresolvable keys -> fallback); all-hidden dimension 4%; pairwise alpha "
        "settings 35%; a small malformed stream (unsupported measure, missing element_id, hide='true'). "
        "+ 90 (quick) cases of the class 'insertion order' from random.Random(seed+555): CAT x CAT slices / "
        "CAT strands, every dimension with 2-3 subtotals (view or transform, ids given / generated / partly "
        "given) defined in another order than their anchors display them, payload / explicit / value-sort order "
        "in rotation, hide, prune - for the leg 'both renderings of the reported order name the same vectors'. "
        "Every third case number whose (transformed / untransformed) order displays a subtotal is ALSO read in "
        "other read orders (leg 'read order': each order-dependent output first on its own partition vs. fills "
        "first .. order last vs. after every public property shuffled by the case number). "
        "non-trivial = the transformed run reorders or removes at least one vector; distinct by content hash")
    rep.assumptions = [
        "the reported row_order()/column_order() of both runs are taken from the implementation (C07/C08/C09 own "
        "their content); this check owns: no duplicates, range, that EVERY output is aligned with them, and that "
        "the two reported forms of an order (signed indexes, insertion ids) name the same vector at every position "
        "(insertion ids read from the subtotal sequence of the partition's _dimensions: no public way)",
        "dims_info / element derived flags / subtotal is_difference are read from the partition's _dimensions "
        "(no public way)",
        "outputs whose untransformed value raises are not comparable (counted in untransformed_undefined); the "
        "legacy summary t-test outputs on array slices are skipped (2-D base / 1-D margin broadcasting, no "
        "reference value; counted in skipped_legacy_on_arrays); when nothing is displayed an exception in one "
        "run only is not compared (empty_display_exceptions)",
    ]
    from harness.props import dimtype_legs   # legs of Model/DimValues.v + trusted base (workstream dimtype)
    dimtype_legs.run(rep, PID, tier, seed)
    return rep.finish("proof", ob, trusted_base=core.TRUSTED_BASE_COMMON + [
        "Model/Assemble.v is hand-written; tied to cubepart.py (_assemble_matrix/_assemble_marginal/"
        "_assemble_vector, labels, fills, *_idxs, pairwise_indices) by the correspondence run on sampled "
        "outputs; ALL outputs are covered by the relational oracle on the implementation alone",
        "Model/Collator.v (order_nodup theorems) is tied to collator.py by the checks C07/C08/C09",
        dimtype_legs.trusted_base()])


def replay(path):
    d = json.load(open(path))
    case = d["violation"]["case"]
    if isinstance(case, dict) and case.get("dimtype_leg"):   # a case of harness/props/dimtype_legs.py
        from harness.props import dimtype_legs
        return dimtype_legs.replay_main(PID, case)
    rep = core.Report(PID, "quick", d.get("seed", 0))
    res = cu.check_pair(case, read_order=True)
    n = report_issues(rep, case, res)
    for i in res["issues"][:10]:
        print("REPLAY issue:", i.kind, i.output, json.dumps(core.jsonable(i.detail))[:600])
    bad_model = 0
    if res["status"] == "done":
        ts = model_terms(case, res, random.Random(0))
        if ts:
            results, _ = core.run_coq_cases(PID, IMPORTS, [t[1] for t in ts], tag="replay")
            for (what, term, expected, kind), toks in zip(ts, results):
                bad = decode_and_compare(what, toks, expected, kind)
                if bad is not None:
                    bad_model += 1
                    print("REPLAY model differs:", json.dumps(core.jsonable(bad))[:600])
    if rep.known:
        print("REPLAY: known findings hit:", rep.known)
    if n or bad_model:
        print("REPLAY: still failing (%d relational, %d model)" % (n, bad_model))
        return 1
    print("REPLAY: no (unknown) failure")
    return 0
