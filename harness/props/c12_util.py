# -*- coding: utf-8 -*-
"""Helpers shared by the C12 (z-scores) and C13 (pairwise column tests) checks:
surveys with a prescribed count table, display transforms (order / hide), assembling model
blocks into the display order reported by the implementation."""
import copy
from fractions import Fraction

import numpy as np

from harness import core, gen, impl


# ------------------------------------------------------------------------------------
# surveys
# ------------------------------------------------------------------------------------

def survey_from_table(rng, rowv, colv, table, weight=None, extra_missing=True):
    """A survey of two categorical variables whose VALID x VALID unweighted count table is
    `table` (list of lists of ints); every respondent has the same weight `weight` (a
    Fraction) when given, so that the weighted table is exactly `weight * table`."""
    sv = gen.Survey([rowv, colv], 0, rng, weighted=weight is not None)
    ridx = [k for k, c in enumerate(rowv.cats) if not c["missing"]]
    cidx = [k for k, c in enumerate(colv.cats) if not c["missing"]]
    rmis = [k for k, c in enumerate(rowv.cats) if c["missing"]]
    cmis = [k for k, c in enumerate(colv.cats) if c["missing"]]
    w = Fraction(1) if weight is None else Fraction(weight)
    for i, row in enumerate(table):
        for j, n in enumerate(row):
            for _ in range(int(n)):
                sv.resp.append({"ans": {rowv.alias: ridx[i], colv.alias: cidx[j]}, "w": w, "num": {}})
    if extra_missing:
        for _ in range(rng.randint(0, 4)):
            a = rng.choice(rmis) if rmis and rng.random() < 0.7 else rng.randrange(len(rowv.cats))
            b = rng.choice(cmis) if cmis and (a not in rmis or rng.random() < 0.5) else None
            if b is None:
                if a in rmis:
                    b = rng.randrange(len(colv.cats))
                else:
                    continue
            sv.resp.append({"ans": {rowv.alias: a, colv.alias: b}, "w": w, "num": {}})
    return sv


def special_table(rng, kind, nr, nc):
    """Count tables of the unusual shapes C12 quantifies over."""
    if kind == "proportional":  # outer product => rank <= 1
        a = [rng.randint(0, 3) for _ in range(nr)]
        b = [rng.randint(0, 4) for _ in range(nc)]
        if not any(a):
            a[rng.randrange(nr)] = 1
        if not any(b):
            b[rng.randrange(nc)] = 2
        return [[x * y for y in b] for x in a]
    if kind == "zero_margins":  # some empty rows / columns, rest random
        t = [[rng.randint(0, 6) for _ in range(nc)] for _ in range(nr)]
        for i in range(nr):
            if rng.random() < 0.4:
                t[i] = [0] * nc
        for j in range(nc):
            if rng.random() < 0.4:
                for i in range(nr):
                    t[i][j] = 0
        return t
    if kind == "one_cell":
        t = [[0] * nc for _ in range(nr)]
        t[rng.randrange(nr)][rng.randrange(nc)] = rng.randint(1, 5)
        return t
    if kind == "all_zero":
        return [[0] * nc for _ in range(nr)]
    if kind == "rank2_sparse":  # two non-zero rows, others empty
        t = [[0] * nc for _ in range(nr)]
        for i in rng.sample(range(nr), min(2, nr)):
            t[i] = [rng.randint(0, 5) for _ in range(nc)]
        return t
    return [[rng.randint(0, 8) for _ in range(nc)] for _ in range(nr)]


def survey_from_weighted_table(rng, rowv, colv, table):
    """A WEIGHTED survey with ONE respondent per non-empty valid x valid cell whose weight is the
    cell's (integer or dyadic) count: the weighted table is exactly `table` whatever its size
    (population-projected weights: 1e8 .. 1e10 and beyond; integers below 2^53 are exact in
    float64), without a respondent per unit of count."""
    sv = gen.Survey([rowv, colv], 0, rng, weighted=True)
    ridx = [k for k, c in enumerate(rowv.cats) if not c["missing"]]
    cidx = [k for k, c in enumerate(colv.cats) if not c["missing"]]
    for i, row in enumerate(table):
        for j, n in enumerate(row):
            if n:
                sv.resp.append({"ans": {rowv.alias: ridx[i], colv.alias: cidx[j]}, "w": Fraction(n), "num": {}})
    return sv


def _composition(rng, total, k):
    """k non-negative integers summing to total"""
    cuts = sorted(rng.randint(0, total) for _ in range(k - 1))
    return [b - a for a, b in zip([0] + cuts, cuts + [total])]


def zero_block_table(rng, nr, nc):
    """(table, addend column positions A, complement positions): an nr x nc integer table of rank
    >= 2 in which the columns A together hold THE SAME share s of every row (s dyadic, every row
    total a positive multiple of 4): the subtotal column over A has count == expected count in every
    row EXACTLY, also in float64 (row base * column base is a small integer, its quotient by the
    table base is representable), so its z-scores are exactly 0 and its p-values must be 1."""
    assert nr >= 2 and nc >= 3
    for _ in range(50):
        A = sorted(rng.sample(range(nc), rng.randint(2, nc - 1)))
        rest = [j for j in range(nc) if j not in A]
        s = rng.choice([Fraction(1, 2), Fraction(1, 4), Fraction(3, 4)])
        table = []
        for _i in range(nr):
            R = 4 * rng.randint(1, 6)
            S = int(s * R)
            row = [0] * nc
            for j, x in zip(A, _composition(rng, S, len(A))):
                row[j] = x
            for j, x in zip(rest, _composition(rng, R - S, len(rest))):
                row[j] = x
            table.append(row)
        if rank_class(table) == "full":
            return table, A, rest
    # fall-back: a fixed instance (the seeded example's shape)
    return [[1, 2, 3, 4, 0][:nc] + [0] * max(0, nc - 5) for _ in range(nr)], [0, 1], list(range(2, nc))


def large_table(rng, nr, nc, kind):
    """Integer count tables of population-projected size (table base 1e8 .. 1e10).
    'near_proportional': round(T r_i c_j) + d_ij with |d_ij| / expected log-uniform in
    [3e-6, 1e-3] - residuals tiny RELATIVE to the expected count (the realm of rtol-style
    tolerances) yet worth |z| of 0.01 .. 50; margins balanced so that no share exceeds ~0.6;
    'random': independent counts up to 1e10 / (nr nc)."""
    if kind == "dominant":
        # one row (or one column) holds all but <= ~1e-5 of the table base, the other vectors a handful of
        # respondents each: the dominant margin's base is within numpy's default `isclose` window of the
        # table base without being equal to it (seeded change C12-6), residuals and z-scores are ordinary
        flip = rng.random() < 0.5
        a, b = (nc, nr) if flip else (nr, nc)
        t = [[rng.randint(0, 3) for _ in range(b)] for _ in range(a)]
        i0 = rng.randrange(a)
        t[i0] = [rng.randint(10 ** 5, 10 ** 8) for _ in range(b)]
        others = [i for i in range(a) if i != i0]
        if others and all(x == 0 for i in others for x in t[i]):
            t[rng.choice(others)][rng.randrange(b)] = rng.randint(1, 4)
        return [list(r) for r in zip(*t)] if flip else t
    T = 10 ** rng.uniform(8, 10)
    if kind == "random":
        top = int(T / (nr * nc)) * 2
        return [[rng.randint(0, top) for _ in range(nc)] for _ in range(nr)]
    rs = [rng.uniform(1, 2) for _ in range(nr)]
    cs = [rng.uniform(1, 2) for _ in range(nc)]
    rs = [x / sum(rs) for x in rs]
    cs = [x / sum(cs) for x in cs]
    rel = 10 ** rng.uniform(-5.5, -3)
    table = []
    for i in range(nr):
        row = []
        for j in range(nc):
            e = T * rs[i] * cs[j]
            d = e * rel * rng.uniform(0.3, 1.0) * rng.choice([-1, 1])
            if rng.random() < 0.15:
                d = 0
            row.append(max(0, int(round(e + d))))
        table.append(row)
    return table


# ------------------------------------------------------------------------------------
# display transforms
# ------------------------------------------------------------------------------------

def element_ids(v):
    if v.kind in ("cat", "cat_date"):
        return [c["id"] for c in v.cats if not c["missing"]]
    if v.kind in ("mr", "ca"):
        return [it["id"] for it in v.items]
    return [e["id"] for e in v.elements if not e["missing"]]


def display_transform(rng, v, p_order=0.7, p_hide=0.5, max_hide=None):
    """{"order": explicit permutation/subset, "elements": {id: {"hide": True}}} for one dim."""
    ids = element_ids(v)
    d = {}
    if ids and rng.random() < p_order:
        k = rng.randint(1, len(ids))
        d["order"] = {"type": "explicit", "element_ids": rng.sample(ids, k)}
    if ids and rng.random() < p_hide:
        nh = rng.randint(1, max(1, len(ids) - 1 if max_hide is None else max_hide))
        hid = rng.sample(ids, min(nh, len(ids)))
        d["elements"] = {str(i): {"hide": True} for i in hid}
    return d


# ------------------------------------------------------------------------------------
# blocks <-> display
# ------------------------------------------------------------------------------------

def full_from_blocks(blocks):
    """[[base, subcols],[subrows, inter]] (nested lists, any cell type) -> one nested list in
    payload order (base rows then subtotal rows; base columns then subtotal columns)."""
    top = [list(a) + list(b) for a, b in zip(blocks[0][0], blocks[0][1])] if blocks[0][0] else []
    if not top and blocks[0][1]:
        top = [list(b) for b in blocks[0][1]]
    bot = [list(a) + list(b) for a, b in zip(blocks[1][0], blocks[1][1])] if blocks[1][0] else []
    if not bot and blocks[1][1]:
        bot = [list(b) for b in blocks[1][1]]
    return top + bot


def display_of(full, row_order, col_order, n_rows_total, n_cols_total):
    """Rearrange a payload-order nested list by signed display orders."""
    out = []
    for r in row_order:
        ri = int(r) if r >= 0 else n_rows_total + int(r)
        row = []
        for c in col_order:
            cj = int(c) if c >= 0 else n_cols_total + int(c)
            row.append(full[ri][cj])
        out.append(row)
    return out


def frac_blocks(blocks):
    return [[[[core.to_exact(x) for x in r] for r in b] for b in pair] for pair in blocks]


def is_num(x):
    return isinstance(x, Fraction)


# ------------------------------------------------------------------------------------
# rank classification of the base counts (assumption about numpy.linalg.matrix_rank)
# ------------------------------------------------------------------------------------

def rank_class(base, full_rel=Fraction(1, 1000)):
    """'deficient' (all 2x2 minors exactly 0 or an empty axis), 'full' (a minor >= full_rel of the
    squared largest entry) or 'unclear' (skipped: SVD tolerance territory).

    Why a relative minor decides: the largest |2x2 minor| m of a matrix is an entry of its second
    compound matrix, whose spectral norm is sigma_1 * sigma_2, so sigma_2 >= m / sigma_1 and, with
    sigma_1 <= ||A||_F <= sqrt(nr nc) * big,  sigma_2 / sigma_1 >= m / (nr nc big^2).  numpy's
    matrix_rank counts the singular values above sigma_1 * max(nr, nc) * 2.2e-16: with
    m >= 1e-9 big^2 and nr nc <= 64 the ratio is >= 1.5e-11, four orders above that tolerance."""
    nr = len(base)
    nc = len(base[0]) if nr else 0
    if nr == 0 or nc == 0:
        return "deficient"
    m = [[core.to_exact(x) for x in r] for r in base]
    if any(not is_num(x) for r in m for x in r):
        return "unclear"
    big = max(abs(x) for r in m for x in r)
    best = Fraction(0)
    for i in range(nr):
        for i2 in range(i + 1, nr):
            for j in range(nc):
                for j2 in range(j + 1, nc):
                    d = abs(m[i][j] * m[i2][j2] - m[i][j2] * m[i2][j])
                    if d > best:
                        best = d
    if best == 0:
        return "deficient"
    if best >= Fraction(full_rel) * big * big:
        return "full"
    return "unclear"
