# -*- coding: utf-8 -*-
"""One entry per claimed property: what MANIFEST.json says about its check.
tools/gen_manifest.py turns this table into /verif/MANIFEST.json."""

TECHNIQUE = ("machine-checked proof in Coq 8.16.1 (theorems about an executable Gallina model) "
             "+ correspondence check model-vs-implementation (cases.v / vm_compute)")

CHECKS = {
    "C20": {
        "text": "Theorems (Props/C20.v, closed under the global context) prove for every matrix/series, "
                "row, period and window that the model's smoother is NaN for the first w-1 periods and "
                "the arithmetic mean of the w trailing unsmoothed values afterwards, that the guard "
                "(not categorical-date, w<2, w>periods, empty) is the identity, and the window parsing "
                "table. The model is tied to smoothing.py and the smoothed measures by running both on "
                "the implementation's own unsmoothed public values (slices and strands, subtotals, "
                "every window spelling).",
        "note": "Trusted: Coq kernel + vm_compute; hand-written Model/Smoothing.v tied by correspondence only "
                "(sampled inputs, 1e-9 tolerance); unsmoothed inputs are taken from the implementation's public "
                "API (owned by C03/C16/C01). Float rounding not modelled.",
        "design_ref": "DESIGN.md section 3 (C20), 2.4",
    },
    "C12": {
        "text": "Theorems (Props/C12.v) prove for all rational inputs that the model's z*|z| of a cell is "
                "(c-e)|c-e| / (e(1-r/t)(1-k/t)), e = r k/t, from that cell's own count and row/column/table "
                "bases (derived by field from the code's variance r k (t-r)(t-k)/t^3), with the sign of c-e; "
                "that in every block of a non-defective table each cell uses its own bases; that for every "
                "2x2 table with non-zero margins z^2 of all four cells is Pearson's chi-square "
                "N(ad-bc)^2/(R1 R2 K1 K2); that a defective table (empty axis or all 2x2 minors zero, proved "
                "equivalent to 'every row is a multiple of one vector') is NaN in every cell of every block; "
                "the all(t==r)/all(t==k) guard and the zero-variance boundary; and, for every CDF-shaped Phi "
                "(section variable), that p = 2(1-Phi|z|) is in [0,1], even, antitone in |z|, the sum of both "
                "tails and a function of z^2. The model is tied to _Zscores/_Pvalues by running it on the "
                "implementation's own public counts and weighted bases (four blocks, all dimension-type "
                "pairs, weighted/unweighted, subtotals, degenerate tables, order/hide transforms) and "
                "comparing zscores, pvals (scipy on the model's exact z^2) and residual_test_stats; "
                "chi-square and defective=>NaN are also checked on the implementation alone.",
        "note": "Trusted: Coq kernel + vm_compute; hand-written Model/Zscore.v tied by correspondence only "
                "(sampled inputs, 1e-9 tolerance); the rank test is modelled exactly (all 2x2 minors zero) and "
                "numpy's SVD-with-tolerance matrix_rank is ASSUMED to agree on the generated tables (exactly "
                "rank-deficient small dyadic tables or a minor >= 1e-3 relative; others skipped and counted); "
                "scipy's norm.cdf is assumed CDF-shaped (p-value theorems are for any such function, over "
                "Coq's axiomatised reals: stdlib axioms sig_forall_dec, functional_extensionality_dep appear "
                "in Print Assumptions of those five theorems only); NaN vs +-inf is not distinguished in cells "
                "whose exact variance is 0; inputs (counts, bases) are the implementation's public values "
                "(owned by C01/C02/C04). Removing the all(t==r) guard is an equivalent mutant on dyadic inputs "
                "(0/0 either way) and is not detected.",
        "design_ref": "DESIGN.md section 3 (C12), 2.4",
    },
    "C14": {
        "text": "Theorems (Props/C14.v, closed under the global context) prove for every list of weighted "
                "respondents and every assignment of numeric values to categories (partial, repeated, "
                "negative, unsorted) that the model's scale mean of the tallied count vector is the weighted "
                "mean of the individual respondents' values (any positive base), stddev^2 their population "
                "variance, stderr^2 that variance over the margin (strand: over the valued weighted count), "
                "NaN when no respondent has a value, None iff no category has a value, NaN for difference "
                "vectors; for integer counts and ANY tie order of argsort the cumulative-count median rule "
                "returns a median of the respondents' values provided no empty category follows an exact "
                "50% point (C14_median_eq), and is refuted without that proviso (C14_median_refuted, "
                "counts 2,0,2 on 1,2,3); strand/margin medians by expansion are medians; the strand's "
                "NaN-instead-of-None median is exhibited (C14_strand_median_empty_refuted). The model is "
                "tied to the code by running both on the implementation's own reported counts, weighted "
                "bases and margins for every base and subtotal vector of generated slices and strands, plus "
                "a respondent-level Python oracle and a hide/order/prune relational check of the margins.",
        "note": "Trusted: Coq kernel + vm_compute; hand-written Model/Scale.v tied by correspondence only "
                "(sampled inputs, 1e-9 tolerance); counts/bases/margins are taken from the implementation's "
                "public API (owned by C01/C02/C04); square roots compared through squares; the order of equal "
                "values in numpy's argsort is an input validated by valid_order. Three open findings "
                "(known_findings.d/C14-*.json): median with an empty category after the 50% point, strand "
                "median NaN vs None, margins computed from the hidden-filtered arrays. Infinite/negative "
                "counts and float rounding not modelled.",
        "design_ref": "DESIGN.md section 3 (C14), 2.4, section 4 #2 #8 #10",
    },
}

CHECKS["C15"] = {
    "text": "Theorems (Props/C15.v, closed under the global context): for every sums matrix, every list of row/column "
            "subtotals and every cell of each of the four blocks, row/column/total share is the (signed) sum of the "
            "cell divided by the nansum over BASE rows/columns of its column/row/table (inserted rows/columns by their "
            "own total over base columns/rows); base-cell shares of a row/column add up to 1 (NaN cells skipped) "
            "whenever the total is a non-zero number; the column (row, total) share of a subtotal without subtrahends "
            "equals the sum of its addends' shares; strand twin. Model tied to the code by running both on the "
            "implementation's own public sums, plus an independent exact-fraction oracle of the property text.",
    "note": "Trusted: Coq kernel + vm_compute; hand-written Model/Share.v, Model/Subtotals.v tied by correspondence only; "
            "sums and subtotal offsets are read from the implementation (owned by C01/C04); sign of an infinity from a "
            "zero total is not compared (signed zero not modelled).",
    "design_ref": "DESIGN.md section 3 (C15)",
}

NOT_APPLICABLE = {}
