# -*- coding: utf-8 -*-
"""One entry per claimed property: what MANIFEST.json says about its check.
tools/gen_manifest.py turns this table into /verif/MANIFEST.json."""

TECHNIQUE = ("machine-checked proof in Coq 8.16.1 (theorems about an executable Gallina model) "
             "+ correspondence check model-vs-implementation (cases.v / vm_compute)")

CHECKS = {
    "C20": {
        "text": "Theorems (Props/C20.v, closed under the global context) prove for every matrix/series, "
                "row, period and window that the model's smoother is NaN for the first w-1 periods and "
                "the arithmetic mean of the w trailing unsmoothed values afterwards, that the guard "
                "(not categorical-date, w<2, w>periods, empty) is the identity, and the window parsing "
                "table. The model is tied to smoothing.py and the smoothed measures by running both on "
                "the implementation's own unsmoothed public values (slices and strands, subtotals, "
                "every window spelling).",
        "note": "Trusted: Coq kernel + vm_compute; hand-written Model/Smoothing.v tied by correspondence only "
                "(sampled inputs, 1e-9 tolerance); unsmoothed inputs are taken from the implementation's public "
                "API (owned by C03/C16/C01). Float rounding not modelled.",
        "design_ref": "DESIGN.md section 3 (C20), 2.4",
    },
}

NOT_APPLICABLE = {}
