# -*- coding: utf-8 -*-
"""One entry per claimed property: what MANIFEST.json says about its check.
tools/gen_manifest.py turns this table into /verif/MANIFEST.json."""

TECHNIQUE = ("machine-checked proof in Coq 8.16.1 (theorems about an executable Gallina model); the model is tied "
             "to /repo on every run (a) by source translators (fail-closed Python-ast readers regenerating coq/Gen/*.v, "
             "with GenAgree lemmas re-proved for all inputs) and (b) by a correspondence check "
             "model-vs-implementation (cases.v / vm_compute)")

CHECKS = {
    "C20": {
        "text": "Theorems (Props/C20.v, closed under the global context) prove for every matrix/series, "
                "row, period and window that the model's smoother is NaN for the first w-1 periods and "
                "the arithmetic mean of the w trailing unsmoothed values afterwards, that the guard "
                "(not categorical-date, w<2, w>periods, empty) is the identity, and the window parsing "
                "table. The model is tied to smoothing.py and the smoothed measures by running both on "
                "the implementation's own unsmoothed public values (slices and strands, subtotals, "
                "every window spelling).",
        "note": "Trusted: Coq kernel + vm_compute; hand-written Model/Smoothing.v tied by correspondence only "
                "(sampled inputs, 1e-9 tolerance); unsmoothed inputs are taken from the implementation's public "
                "API (owned by C03/C16/C01). Float rounding not modelled.",
        "design_ref": "DESIGN.md section 3 (C20), 2.4",
    },
    "C12": {
        "text": "Theorems (Props/C12.v) prove for all rational inputs that the model's z*|z| of a cell is "
                "(c-e)|c-e| / (e(1-r/t)(1-k/t)), e = r k/t, from that cell's own count and row/column/table "
                "bases (derived by field from the code's variance r k (t-r)(t-k)/t^3), with the sign of c-e; "
                "that in every block of a non-defective table each cell uses its own bases; that for every "
                "2x2 table with non-zero margins z^2 of all four cells is Pearson's chi-square "
                "N(ad-bc)^2/(R1 R2 K1 K2); that a defective table (empty axis or all 2x2 minors zero, proved "
                "equivalent to 'every row is a multiple of one vector') is NaN in every cell of every block; "
                "the all(t==r)/all(t==k) guard and the zero-variance boundary; and, for every CDF-shaped Phi "
                "(section variable), that p = 2(1-Phi|z|) is in [0,1], even, antitone in |z|, the sum of both "
                "tails and a function of z^2. The model is tied to _Zscores/_Pvalues by running it on the "
                "implementation's own public counts and weighted bases (four blocks, all dimension-type "
                "pairs, weighted/unweighted, subtotals, degenerate tables, order/hide transforms) and "
                "comparing zscores, pvals (scipy on the model's exact z^2) and residual_test_stats; "
                "chi-square and defective=>NaN are also checked on the implementation alone.",
        "note": "Trusted: Coq kernel + vm_compute; hand-written Model/Zscore.v tied by correspondence only "
                "(sampled inputs, 1e-9 tolerance); the rank test is modelled exactly (all 2x2 minors zero) and "
                "numpy's SVD-with-tolerance matrix_rank is ASSUMED to agree on the generated tables (exactly "
                "rank-deficient small dyadic tables or a minor >= 1e-3 relative; others skipped and counted); "
                "scipy's norm.cdf is assumed CDF-shaped (p-value theorems are for any such function, over "
                "Coq's axiomatised reals: stdlib axioms sig_forall_dec, functional_extensionality_dep appear "
                "in Print Assumptions of those five theorems only); NaN vs +-inf is not distinguished in cells "
                "whose exact variance is 0; inputs (counts, bases) are the implementation's public values "
                "(owned by C01/C02/C04). Removing the all(t==r) guard is an equivalent mutant on dyadic inputs "
                "(0/0 either way) and is not detected.",
        "design_ref": "DESIGN.md section 3 (C12), 2.4",
    },
    "C14": {
        "text": "Theorems (Props/C14.v, closed under the global context) prove for every list of weighted "
                "respondents and every assignment of numeric values to categories (partial, repeated, "
                "negative, unsorted) that the model's scale mean of the tallied count vector is the weighted "
                "mean of the individual respondents' values (any positive base), stddev^2 their population "
                "variance, stderr^2 that variance over the margin (strand: over the valued weighted count), "
                "NaN when no respondent has a value, None iff no category has a value, NaN for difference "
                "vectors; for integer counts and ANY tie order of argsort the cumulative-count median rule "
                "returns a median of the respondents' values provided no empty category follows an exact "
                "50% point (C14_median_eq), and is refuted without that proviso (C14_median_refuted, "
                "counts 2,0,2 on 1,2,3); strand/margin medians by expansion are medians; the strand's "
                "NaN-instead-of-None median is exhibited (C14_strand_median_empty_refuted). The model is "
                "tied to the code by running both on the implementation's own reported counts, weighted "
                "bases and margins for every base and subtotal vector of generated slices and strands, plus "
                "a respondent-level Python oracle and a hide/order/prune relational check of the margins.",
        "note": "Trusted: Coq kernel + vm_compute; hand-written Model/Scale.v tied by correspondence only "
                "(sampled inputs, 1e-9 tolerance); counts/bases/margins are taken from the implementation's "
                "public API (owned by C01/C02/C04); square roots compared through squares; the order of equal "
                "values in numpy's argsort is an input validated by valid_order. Three open findings "
                "(known_findings.d/C14-*.json): median with an empty category after the 50% point, strand "
                "median NaN vs None, margins computed from the hidden-filtered arrays. Infinite/negative "
                "counts and float rounding not modelled.",
        "design_ref": "DESIGN.md section 3 (C14), 2.4, section 4 #2 #8 #10",
    },
}

CHECKS["C15"] = {
    "text": "Theorems (Props/C15.v, closed under the global context): for every sums matrix, every list of row/column "
            "subtotals and every cell of each of the four blocks, row/column/total share is the (signed) sum of the "
            "cell divided by the nansum over BASE rows/columns of its column/row/table (inserted rows/columns by their "
            "own total over base columns/rows); base-cell shares of a row/column add up to 1 (NaN cells skipped) "
            "whenever the total is a non-zero number; the column (row, total) share of a subtotal without subtrahends "
            "equals the sum of its addends' shares; strand twin. Model tied to the code by running both on the "
            "implementation's own public sums, plus an independent exact-fraction oracle of the property text.",
    "note": "Trusted: Coq kernel + vm_compute; hand-written Model/Share.v, Model/Subtotals.v tied by correspondence only; "
            "sums and subtotal offsets are read from the implementation (owned by C01/C04); sign of an infinity from a "
            "zero total is not compared (signed zero not modelled).",
    "design_ref": "DESIGN.md section 3 (C15)",
}

CHECKS["C17"] = {
    "text": "Theorems (Props/C17.v, closed under the global context) prove that for EVERY shape of the "
            "response's filter statistics without a null dict the model's cascade equals the property's "
            "decision list (new style selected/(selected+other), 1 for a categorical-date filter, else "
            "filtered/unfiltered weighted N, 1 when unspecified, NaN on a zero denominator), each rule "
            "also separately; that population counts are P*N*f cell by cell with P the row / column / "
            "table proportion chosen by the categorical-date position (strand: 1 on categorical-date), "
            "NaN on subtotal differences; MoE = 1.959964*(N f)*stderr and its square; linearity in N. "
            "Refuted-by-witness theorems exhibit the null-dict AttributeError and the two strand "
            "difference exceptions. The model is tied to the code by parsing the generated JSON into the "
            "model's shape type and by feeding the implementation's own reported proportions and "
            "standard errors (20 fixed shapes x cat-date positions x slice/strand + random cases), plus "
            "a Python reading of the property text and a linearity oracle on the implementation.",
    "note": "Trusted: Coq kernel + vm_compute; hand-written Model/Population.v tied by correspondence only "
            "(sampled inputs, 1e-9 tolerance); the harness' JSON->fshape parser; proportions / std-errs "
            "are taken from the implementation's public API (owned by C03/C11); the categorical-date "
            "position comes from the generator. Three FIXED findings (known_findings.d/C17-*.json, status fixed). MoE at "
            "difference subtotals is Z*N*f*stderr of the difference (not NaN) - read as covered by the MoE "
            "clause. Booleans / strings as JSON numbers are not modelled (skipped and counted).",
    "design_ref": "DESIGN.md section 3 (C17), 2.4, section 4 #12",
}

CHECKS["C03"] = {
    "text": "Theorems (Props/C03.v, closed under the global context): every cell of every block of the row/column "
            "proportions is count block / base block, except a subtotal difference on a categorical-date dimension "
            "(difference of the two percentages, NaN for several terms) - pointwise for all sizes and insertion lists; "
            "for 0 <= count <= base a proportion is never infinite, lies in [0,1] and is NaN iff the base is 0; "
            "proportions of counts that add up to a non-zero base add up to 1; percentages are 100 x; strand twin. "
            "Model tied to the code by running props_of/div_blocks on the implementation's own count and base blocks; "
            "independent oracles on the implementation: range, NaN<=>zero base, sum to one over all base elements of a "
            "categorical dimension, percentages, margin proportion = margin / table base.",
    "note": "Trusted: Coq kernel + vm_compute; hand-written Model/Proportions.v tied by correspondence only; count/base "
            "blocks and subtotal offsets are read from the implementation (owned by C01/C02/C04); 0<=count<=base is "
            "observed, not derived from the survey here. Open known finding F15 (2-D margin-proportion fall-back with insertions).",
    "design_ref": "DESIGN.md section 3 (C03)",
}

CHECKS["C01"] = {
    "text": "Theorems (Props/C01.v, closed under the global context) prove for EVERY respondent-level survey "
            "(Spec/Survey.v: categorical / multiple-response answers with per-item selected|other|missing, rational "
            "weights), every position of missing categories, 2-D cubes and every partition of 3-D cubes (categorical or "
            "MR table variable) and all four categorical/MR class pairs that the count the code's class extracts from "
            "the survey's tensor after Cube._valid_idxs and _slice_idx_expr equals the weighted number of respondents "
            "in the table element who belong to the row AND the column element (MR: selected the item); that with unit "
            "weights it is the head count; the 1-D strand twins; that the output elements are exactly the non-missing "
            "payload positions in payload order and a respondent answering a missing category belongs to no element; "
            "that reshaping the flat row-major payload of any shape reads the right cell, a numeric measure reports "
            "exactly the payload cell ({'?':code} = NaN) of the selected plane; and the count-measure cascade. "
            "Tied to the code by running Model/CubeCounts.v in Coq on the JSON payload and comparing with "
            "_Slice/_Strand counts, unweighted_counts, means/sums/stddev/medians and Cube.counts/unweighted_counts "
            "for all nine Cat/Mr/Arr class pairs (permuted dimension orders), 1-D/2-D/3-D, CA-as-0th, plus a direct "
            "respondent-level oracle and Coq-tabulate vs generator-payload agreement.",
    "note": "Trusted: Coq kernel + vm_compute; hand-written Model/CubeCounts.v tied by correspondence only (sampled "
            "inputs, 1e-9 tolerance; no source translator yet). PARTIAL: class pairs with a categorical-array dimension "
            "have no survey-level theorem (model + correspondence + survey oracle only); numeric arrays and the 0-D nub "
            "are not generated; the step from the flat payload to the sliced tensor is proved for the layout "
            "(of_flat/flatten) and checked by computation on the examples and on every case, not as one composed theorem.",
    "design_ref": "DESIGN.md section 3 (C01)",
}

CHECKS["C02"] = {
    "text": "Theorems (Props/C02.v, closed under the global context) prove for every survey, 2-D and 3-D, all four "
            "categorical/MR class pairs: row base = weighted members of the row element eligible for the column element, "
            "column base = the mirror image, table base = eligible on both, where eligible for an MR item means not "
            "missing on THAT item (per-item missingness) and for a categorical dimension any valid category; unit "
            "weights give head counts; a count never exceeds its base; for all NINE class pairs the 1-D margins and the "
            "scalar table base are the collapsed 2-D bases, exist iff the opposing dimension is categorical (scalar iff "
            "both), and the public 2-D fall-backs of cubepart.py are exactly the undefined cases; survey-level value of "
            "the margins and of the scalar table base; strand bases; the reported range ends are the least and greatest "
            "base cell; the mask is true exactly where base < size. Tied to the code by running the model in Coq on the "
            "JSON payload against row/column/table_(un)weighted_bases, rows/columns_margin/base, table_margin/base, "
            "table_base/margin_range, min_base_size_mask and the strand twins, plus the respondent-level oracle, "
            "including sum-subtotal rows/columns of the six base matrices as merged categories.",
    "note": "Trusted: Coq kernel + vm_compute; hand-written Model/CubeCounts.v tied by correspondence only. PARTIAL: "
            "array class pairs carry the code's degenerate definitions without survey-level theorem; subtotal blocks of "
            "the base measures are compared with the survey oracle (addend positions read from the private "
            "Dimension.subtotals) but not modelled in Coq; difference subtotals are left to C04.",
    "design_ref": "DESIGN.md section 3 (C02)",
}

CHECKS["C16"] = {
    "text": "Theorems (Props/C16.v, closed under the global context) prove for every survey and all four "
            "categorical/MR pairings that each of the four _*UnconditionalCubeCounts.baseline variants, applied to the "
            "survey's tensor INCLUDING missing elements and the full MR selection axis, is w(row element)/w(eligible for "
            "it) with no condition on the column answer, and that column_index = 100 * (count/column base) / that share, "
            "NaN where a share is undefined; 2-D and every partition of 3-D cubes wherever missing table categories sit "
            "(the code addresses the raw counts by the payload offset of the k-th valid table element - the repaired "
            "defect C16-3d-baseline-wrong-table; C16_former_witness is the survey on which the unrepaired code reported "
            "inf instead of 100). Tied to the code by running the model in Coq on the JSON payload "
            "against _Slice.column_index on surveys with heavy, row-skewed column missingness (2-D/3-D, weighted or not), "
            "a respondent-level oracle, and a NaN check of inserted subtotals.",
    "note": "Trusted: Coq kernel + vm_compute; hand-written model tied by correspondence only. FIXED finding "
            "C16-3d-baseline-wrong-table (known_findings.d, status fixed; 35% of the generated 3-D cases have a missing "
            "table category before a valid one). "
            "Assumes MR items are never flagged missing (the code's 2-D baselines are not filtered by item validity) "
            "and every respondent's column answer is inside the payload; array dimensions are outside the property.",
    "design_ref": "DESIGN.md section 3 (C16), section 4 #7",
}

CHECKS["C11"] = {
    "text": "Theorems (Props/C11.v, closed under the global context): for EVERY finite list of weighted respondents "
            "with indicator +1/0/-1 the code's three-term formula on (proportion, base, positive count, negative "
            "count) equals the weighted variance of that indicator around its mean, the proportion is that mean, "
            "it reduces to p(1-p) without subtrahends and to (Np+Nn)/Nt - p^2 in general, is non-negative for "
            "non-negative weights and NaN when the base is zero or the proportion undefined; every cell of the four "
            "blocks uses its own proportion/base/positive/negative terms (sums over addends / subtrahends); "
            "std-err^2 = variance/base, MoE^2 = 1.959964^2 std-err^2. Model tied to the code on the implementation's "
            "own proportion/base/count blocks (slices: 3 directions x 4 blocks; strands), radicals through squares.",
    "note": "Trusted: Coq kernel + vm_compute; hand-written Model/Variance.v tied by correspondence only; inputs of each "
            "step are the implementation's reported values; np.sqrt not modelled (squares + non-negativity compared); "
            "for overlapping addend/subtrahend ids the indicator of a member of both is not fixed by the property: "
            "covered by correspondence only.",
    "design_ref": "DESIGN.md section 3 (C11)",
}

CHECKS["C07"] = {
    "text": "Theorems (Props/C07.v, closed under the global context) prove for EVERY dimension (any number of elements, any "
            "insertion list, any anchor spellings, any explicit order list, any hidden/empty set) that the model of the "
            "payload/explicit collators - sort of (position, relation, index) keys - yields exactly the specification's "
            "anchored order (Spec/OrderSpec.v: top-anchored subtotals, each base element preceded/followed by the subtotals "
            "anchored before/after it in definition order, stale/None anchors at the bottom, hidden elements removed), and "
            "that ANY sort of those keys reads that order (uniqueness of the sorted permutation); explicit order = listed "
            "known ids first-mention-wins then the leftovers in payload order; the anchor normalisation table; ids of "
            "id-less insertions (transforms: definition position; given ids kept); the ins_N rendering names the same "
            "sequence as the signed one when insertion ids are distinct. Refuted-by-witness theorems exhibit the two "
            "places where the code departs (ids of id-less VIEW insertions ranked by raw anchors; ins_N rendering of "
            "re-ordered transform insertions). Model tied to the code by running Model/Collator.v in Coq on the raw "
            "response + transforms against row_order()/column_order() (both formats), codes, labels, payload_order, shape, "
            "is_empty of slices and strands; spec values computed in Coq from Spec/OrderSpec.v as the oracle.",
    "note": "Trusted: Coq kernel + vm_compute; hand-written Model/Collator.v tied by correspondence only (sampled inputs). "
            "Three open findings (known_findings.d/C07-*.json): BOGUS_IDS payload mapping, BOGUS_IDS TypeError with pruned "
            "subtotals, crosswalk ranks raw anchors. Derived MR items under explicit order and sort-by-value are left to C08; "
            "label strings are ASCII.",
    "design_ref": "DESIGN.md section 3 (C07)",
}

CHECKS["C09"] = {
    "text": "Theorems (Props/C09.v, closed under the global context) prove for every dimension, transform and unweighted "
            "count tensor that a base element occurs in the display order of the model's collators IFF it is not flagged "
            "hidden and not (prune requested and its vector empty), for rows, columns and strands; that emptiness is a "
            "function of the UNWEIGHTED tensor only (any two weighted tensors give the same decision); a vector with a "
            "positive unweighted cell is never pruned; a vector with no eligible respondent is; for MR crossed with a "
            "categorical/array dimension an item answered but never selected is not empty, while for MR x MR only selected "
            "counts matter; subtotals are dropped iff the opposing dimension prunes and all its base vectors are empty, or "
            "the insertion carries hide: true. Model tied to the code by computing the unweighted eligibility counts from "
            "the generated survey respondent by respondent, running Model/OrderPruning.v + Model/Collator.v in Coq and "
            "comparing row/column order (both formats), codes, labels, shape, is_empty of slices and strands; plus an "
            "independent Python oracle of the property text (zero / fractional weights, weighted-empty but not "
            "unweighted-empty categories, items nobody answered).",
    "note": "Trusted: Coq kernel + vm_compute; hand-written models tied by correspondence only (sampled inputs); the "
            "harness' respondent-level tabulation of unweighted counts; sort-by-value orders are owned by C08.",
    "design_ref": "DESIGN.md section 3 (C09)",
}

CHECKS["C13"] = {
    "text": "Theorems (Props/C13.v; all but the five p-value theorems closed under the global context) prove for all "
            "rational inputs: t = (p - p0)/sqrt(p(1-p)/n + p0(1-p0)/n0) stated through t*|t| and t^2 with the sign of "
            "p - p0; antisymmetry t(a,b) = -t(b,a); t of a column against itself is 0 (NaN on zero variance); "
            "df = n + n0 - 2 and its symmetry; every cell of every block uses its own row's proportions and the reference "
            "column chosen by the selected (base or inserted) column; the effective base (sum w)^2 / sum w^2, equal to n "
            "for equal weights; the legacy path computes the same statistic given the same base (and "
            "C13_legacy_effective_base_refuted exhibits that it does not take the weighted base); Welch statistic and "
            "Satterthwaite df for means; the overlap-corrected statistic and df = Na + Nb - Nab; for every CDF-shaped T "
            "(section variable) p is even in t, in [0,1], a function of t^2, and 1 for a column against itself; the index "
            "set of a cell is exactly {display position of b | p < alpha, and t-ordering under only_larger}, strictly "
            "sorted, equivariant under any column order/hiding, never contains the cell's own column when p = 1 or NaN, "
            "secondary-alpha sets contain the primary; alpha parsing as a decision table. Model tied to the code on the "
            "implementation's own public column proportions, bases, means, stddevs and overlap counts (four blocks, "
            "selected base or subtotal column, weighted/unweighted/squared weights, MR overlaps), p-values by scipy on "
            "the model's exact t^2 and df; relational oracles on the implementation alone (antisymmetry, p symmetry, "
            "self never reported, alt superset, equivariance under order/hide, legacy == matrix path).",
    "note": "Trusted: Coq kernel + vm_compute; hand-written Model/Pairwise.v tied by correspondence only (sampled inputs, "
            "1e-9 tolerance, decisions within 1e-9 of alpha skipped and counted); scipy's t.cdf assumed CDF-shaped (the "
            "p-value theorems are over Coq's axiomatised reals: stdlib axioms sig_forall_dec, sig_not_dec, "
            "functional_extensionality_dep appear in Print Assumptions of those theorems only); np.sqrt via squares. "
            "Two open findings (known_findings.d/C13-*.json): legacy effective base from unweighted N; overlap self "
            "p-value 0 lists a column against itself.",
    "design_ref": "DESIGN.md section 3 (C13)",
}

CHECKS["C19"] = {
    "text": "Theorems (Props/C19.v, closed under the global context) prove for EVERY array dimension satisfying the decidable "
            "well-formedness predicate wfb (proved sound for wf; the side conditions are exactly those the proofs force, and "
            "three Examples show each is needed) that alias, sub-variable id, element id as int or as decimal string, and "
            "(when no element id collides) position all translate to the item's alias, that a stale reference translates to "
            "None without raising, that translate only ever returns None or an alias; slot theorems: id lists (explicit "
            "order, fixed top/bottom), element-transform keys (hide/rename, including sub-variable-id and alias keys), "
            "opposing-element references, and whole transforms dicts written with equivalent spellings are rewritten to the "
            "same dict; datetime dimensions: position <-> value, values fixed, stale ids untouched, idempotence. "
            "Refuted-by-witness theorems exhibit translate(None) raising and the datetime missing-element position. Model "
            "tied to the code by comparing Model/Shim.v's translate / shim_xf / consume with Dimension.translate_element_id, "
            "the caller's rewritten transforms dict (including the half-rewritten dict an exception leaves) and element "
            "hidden/label/order; relational oracle on the implementation alone: equivalent spellings give identical labels, "
            "codes, order, values and rewritten dicts for every slot; exhaustive <= 4 items x every spelling x every slot in "
            "the thorough tier.",
    "note": "Trusted: Coq kernel + vm_compute; hand-written Model/Shim.v and Base/Ident.v (Python int()/str()/== on "
            "ASCII sign+digit strings; whitespace/underscore/Unicode-digit spellings excluded and named as a gap) tied by "
            "correspondence only. Two open findings (known_findings.d/C19-*.json): translate_element_id(None) raises "
            "(second translation of a stale id); datetime reference equal to the missing element's position.",
    "design_ref": "DESIGN.md section 3 (C19)",
}

NOT_APPLICABLE = {}

# ------------------------------------------------------------------------------------
# entries kept one-per-file (so that several builders never edit this file concurrently):
# harness/registry.d/Cxx.json = {"text": ..., "note": ..., "design_ref": ...}
# ------------------------------------------------------------------------------------
import glob as _glob
import json as _json
import os as _os

_D = _os.path.join(_os.path.dirname(_os.path.abspath(__file__)), "registry.d")
# only entries the lead has accepted (their check passes on the unchanged tree and is committed)
_ENABLED = set(open(_os.path.join(_D, "ENABLED")).read().split()) if _os.path.exists(_os.path.join(_D, "ENABLED")) else set()
for _f in sorted(_glob.glob(_os.path.join(_D, "C*.json"))):
    _pid = _os.path.basename(_f)[:-5]
    if _pid in _ENABLED:
        with open(_f) as _fh:
            CHECKS[_pid] = _json.load(_fh)
